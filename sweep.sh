#!/bin/sh
# quietness sweep on the current tree: every registered check (quick tier) under several VERIF_SEED values;
# evidence and replays go to a scratch directory so that the committed evidence (seed 1) is not rewritten.
# usage: ./sweep.sh 2 3 4 ...        prints one line per (seed, property); exit 1 if any run was not quiet
cd "$(dirname "$0")" || exit 2
SCR=$(mktemp -d /tmp/vf_sweep.XXXXXX)
rc=0
for s in "$@"; do
  for p in C01 C02 C03 C04 C05 C06 C07 C08 C09 C10 C11 C12 C13 C14 C15 C16 C17 C18 C19 C20; do
    out=$(VERIF_SEED=$s VERIF_EVIDENCE_DIR=$SCR/ev VERIF_REPLAY_DIR=$SCR/rp ./check.sh $p quick 2>&1); c=$?
    echo "$out" | grep -E "^(VIOLATION|HARNESS-ERROR|$p tier)" | cut -c1-260
    if [ $c -ne 0 ]; then rc=1; mkdir -p sweep_failures; cp -r $SCR/rp/$p sweep_failures/ 2>/dev/null; fi
  done
done
rm -rf "$SCR"
exit $rc
