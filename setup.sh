#!/bin/sh
# Offline setup: make sure hypothesis is importable in /venv, then run the oracle self-tests.
cd "$(dirname "$0")" || exit 2
/venv/bin/python -c "import hypothesis" 2>/dev/null || \
  /venv/bin/pip install --no-index --find-links /opt/veriftools/wheels hypothesis || exit 2
PYTHONDONTWRITEBYTECODE=1 PYTHONPATH="$(pwd)" /venv/bin/python -m vf.selftest || exit 2
