#!/bin/sh
# run every registered check (default: quick) and print one summary line per property
cd "$(dirname "$0")" || exit 2
TIER=${1:-quick}
rc=0
for p in C01 C02 C03 C04 C05 C06 C07 C08 C09 C10 C11 C12 C13 C14 C15 C16 C17 C18 C19 C20; do
  out=$(./check.sh $p $TIER 2>&1); c=$?
  echo "$out" | grep -E "^(VIOLATION|HARNESS-ERROR|$p tier)" | cut -c1-220
  [ $c -ne 0 ] && rc=1
done
exit $rc
