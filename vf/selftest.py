"""Self-tests of the reference oracles (run by setup.sh). Failure = exit 2, never a VIOLATION."""
import sys


def main() -> int:
    from vf import env  # noqa: F401
    failures = []
    from vf import selftests

    for name, fn in selftests.ALL:
        try:
            fn()
        except Exception as e:  # pylint: disable=broad-except
            failures.append(f"{name}: {type(e).__name__}: {e}")
    if failures:
        print("SELFTEST FAILURES:\n" + "\n".join(failures), file=sys.stderr)
        return 2
    print(f"selftest ok ({len(selftests.ALL)} groups)")
    return 0


if __name__ == "__main__":
    sys.exit(main())
