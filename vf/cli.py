"""Run the tealer command line in-process (patched sys.argv, captured output)."""
from __future__ import annotations

import os
import shutil
import sys
import tempfile
from typing import List, Optional, Tuple

from vf import adapter, env


class CliResult:
    def __init__(self, argv, exit_code, exc, stdout, stderr, out_dir):
        self.argv = argv
        self.exit_code = exit_code  # None = returned normally
        self.exc = exc  # unexpected exception (not SystemExit)
        self.stdout = stdout
        self.stderr = stderr
        self.out_dir = out_dir

    def files(self) -> List[str]:
        out = []
        for root, _, fs in os.walk(self.out_dir):
            for f in fs:
                out.append(os.path.relpath(os.path.join(root, f), self.out_dir))
        return sorted(out)


_WORKDIR = {"path": None}


def workdir() -> str:
    if _WORKDIR["path"] is None or _WORKDIR.get("pid") != os.getpid():
        _WORKDIR["path"] = tempfile.mkdtemp(prefix="w", dir=env.OUT_ROOT)
        _WORKDIR["pid"] = os.getpid()
    return _WORKDIR["path"]


def run_cli(args: List[str], source: str, name: str = "c", extra_files: Optional[dict] = None) -> CliResult:
    """Write `source` to <name>.teal in a private directory and run `tealer <args>` there.
    '{file}' in args is replaced by the contract file name."""
    from tealer.__main__ import main

    wd = workdir()
    fname = f"{name}.teal"
    with open(os.path.join(wd, fname), "w", encoding="utf-8") as f:
        f.write(source)
    for fn, content in (extra_files or {}).items():
        with open(os.path.join(wd, fn), "w", encoding="utf-8") as f:
            f.write(content)
    out_dir = env.out_dir(name)
    shutil.rmtree(out_dir, ignore_errors=True)
    argv = ["tealer"] + [a.replace("{file}", fname) for a in args]
    old_argv, old_cwd = sys.argv, os.getcwd()
    exit_code, exc = None, None
    os.chdir(wd)
    sys.argv = argv
    try:
        with adapter.captured() as (out, err):
            try:
                main()
            except SystemExit as e:
                exit_code = e.code if e.code is not None else 0
            except BaseException as e:  # pylint: disable=broad-except
                exc = e
    finally:
        sys.argv = old_argv
        os.chdir(old_cwd)
        adapter.clear_caches()
    return CliResult(argv, exit_code, exc, out.getvalue(), err.getvalue(), out_dir)
