"""Runner core: sharded Hypothesis runs, evidence, replay files, known findings.

Exit codes: 0 = property held on everything explored (known findings are
printed as KNOWN-FINDING lines), 1 = unlisted violation (VIOLATION line),
2 = harness error (never a VIOLATION line).
"""
from __future__ import annotations

import hashlib
import importlib
import json
import os
import sys
import time
import traceback
from typing import Any, Dict, List, Optional

ROOT = os.path.dirname(os.path.dirname(os.path.abspath(__file__)))
# (redirectable so that sensitivity runs against seeded changes do not overwrite the real evidence)
EVIDENCE_DIR = os.environ.get("VERIF_EVIDENCE_DIR") or os.path.join(ROOT, "evidence")
REPLAY_DIR = os.environ.get("VERIF_REPLAY_DIR") or os.path.join(ROOT, "replays")
KNOWN_FILE = os.path.join(ROOT, "known_findings.json")
NPROC = int(os.environ.get("VERIF_JOBS", "16"))


class Violation(Exception):
    """The property is violated on this case (clause = which part of the oracle)."""

    def __init__(self, clause: str, detail: str = "", extra: Optional[dict] = None):
        super().__init__(f"{clause}: {detail}")
        self.clause = clause
        self.detail = detail
        self.extra = extra or {}


class HarnessError(Exception):
    """The harness/oracle itself is broken; never reported as a violation."""


def case_hash(case: Any) -> str:
    return hashlib.sha1(json.dumps(case, sort_keys=True, default=str).encode()).hexdigest()[:16]


def load_known(pid: str) -> List[dict]:
    if not os.path.exists(KNOWN_FILE):
        return []
    with open(KNOWN_FILE, encoding="utf-8") as f:
        data = json.load(f)
    return [e for e in data.get("findings", []) if e.get("property") == pid]


def disabled_features(pid: str) -> List[str]:
    out: List[str] = []
    for e in load_known(pid):
        for f in e.get("features", []):
            if f not in out:
                out.append(f)
    return out


def get_module(pid: str):
    return importlib.import_module(f"vf.props.{pid.lower()}")


class Stats:
    """Counters merged across workers."""

    def __init__(self) -> None:
        self.evaluations = 0
        self.nontrivial_keys: set = set()
        self.features: Dict[str, int] = {}
        self.counters: Dict[str, int] = {}
        self.samples: List[Any] = []

    def record(self, info: dict, sample: Any = None, max_samples: int = 3) -> None:
        self.evaluations += int(info.get("evaluations", 1))
        for k in info.get("nontrivial_keys", []):
            self.nontrivial_keys.add(k)
        if info.get("nontrivial") and info.get("key") is not None:
            self.nontrivial_keys.add(info["key"])
        for f in info.get("features", []):
            self.features[f] = self.features.get(f, 0) + 1
        for k, v in info.get("counters", {}).items():
            self.counters[k] = self.counters.get(k, 0) + int(v)
        if sample is not None and len(self.samples) < max_samples and info.get("nontrivial", True):
            self.samples.append(sample)

    def to_dict(self) -> dict:
        return {
            "evaluations": self.evaluations,
            "nontrivial_keys": sorted(self.nontrivial_keys),
            "features": self.features,
            "counters": self.counters,
            "samples": self.samples,
        }

    def merge(self, d: dict) -> None:
        self.evaluations += d["evaluations"]
        self.nontrivial_keys.update(d["nontrivial_keys"])
        for k, v in d["features"].items():
            self.features[k] = self.features.get(k, 0) + v
        for k, v in d["counters"].items():
            self.counters[k] = self.counters.get(k, 0) + v
        for s in d["samples"]:
            if len(self.samples) < 6:
                self.samples.append(s)


def _quiet_tealer(silence_fds: bool = False) -> None:
    import logging

    logging.disable(logging.CRITICAL)
    if silence_fds and not os.environ.get("VERIF_DEBUG"):
        # tealer prints diagnostics ("Not found instruction", version notes) while parsing;
        # worker results travel back through the pool, so their stdout/stderr can be dropped.
        sys.stdout.flush()
        sys.stderr.flush()
        dn = os.open(os.devnull, os.O_WRONLY)
        os.dup2(dn, 1)
        os.dup2(dn, 2)
        os.close(dn)


def _worker(args) -> dict:
    """One Hypothesis run (own derived seed) for one component of a property."""
    pid, comp_name, tier, seed_val, shard, n_examples, disabled = args
    t0 = time.time()
    try:
        _quiet_tealer(True)
        import hypothesis
        from hypothesis import HealthCheck, Phase, given, settings

        mod = get_module(pid)
        comp = mod.components(tier, disabled)[comp_name]
        stats = Stats()
        holder: Dict[str, Any] = {"fail": None}

        phases = [Phase.generate, Phase.shrink]

        @hypothesis.seed(seed_val * 1000 + shard)
        @settings(
            max_examples=n_examples,
            database=None,
            deadline=None,
            derandomize=False,
            report_multiple_bugs=False,
            suppress_health_check=list(HealthCheck),
            phases=phases,
            print_blob=False,
        )
        @given(comp["strategy"])
        def prop(case):
            try:
                info = comp["check"](case)
            except Violation as v:
                holder["fail"] = (case, v.clause, v.detail, v.extra)
                raise
            stats.record(info, sample=comp.get("sample", lambda c, i: c)(case, info))

        failure = None
        try:
            prop()
        except Violation:
            case, clause, detail, extra = holder["fail"]
            failure = {"case": case, "clause": clause, "detail": detail, "extra": extra}
        except Exception as e:  # harness error (generator, oracle bug...)
            if holder["fail"] is not None and isinstance(e, Violation):
                raise
            if comp.get("flaky_is_violation") and holder["fail"] is not None and type(e).__name__ in ("Flaky", "FlakyFailure"):
                # the same case failed once and behaved differently when the library repeated it in this process:
                # for a property about history independence that is the violation itself, not a broken harness
                case, clause, detail, extra = holder["fail"]
                failure = {"case": case, "clause": clause, "detail": detail + "\n(the outcome changed when the same case was repeated in the same process)", "extra": extra}
                return {"stats": stats.to_dict(), "failure": failure, "comp": comp_name, "shard": shard, "wall": time.time() - t0}
            return {
                "error": f"{type(e).__name__}: {e}\n{traceback.format_exc()}",
                "comp": comp_name,
                "shard": shard,
            }
        return {
            "stats": stats.to_dict(),
            "failure": failure,
            "comp": comp_name,
            "shard": shard,
            "wall": time.time() - t0,
        }
    except Exception as e:  # pylint: disable=broad-except
        return {
            "error": f"{type(e).__name__}: {e}\n{traceback.format_exc()}",
            "comp": comp_name,
            "shard": shard,
        }


def _enum_worker(args) -> dict:
    """Deterministic enumeration component: run check over a slice of a finite list."""
    pid, comp_name, tier, shard, nshards, disabled = args
    t0 = time.time()
    try:
        _quiet_tealer(True)
        mod = get_module(pid)
        comp = mod.components(tier, disabled)[comp_name]
        stats = Stats()
        failure = None
        cases = comp["enumerate"]()
        for i, case in enumerate(cases):
            if i % nshards != shard:
                continue
            try:
                info = comp["check"](case)
            except Violation as v:
                if failure is None:
                    failure = {"case": case, "clause": v.clause, "detail": v.detail, "extra": v.extra}
                    if not comp.get("collect_all"):
                        break
                continue
            stats.record(info, sample=comp.get("sample", lambda c, i: c)(case, info))
        return {
            "stats": stats.to_dict(),
            "failure": failure,
            "comp": comp_name,
            "shard": shard,
            "wall": time.time() - t0,
        }
    except Exception as e:  # pylint: disable=broad-except
        return {
            "error": f"{type(e).__name__}: {e}\n{traceback.format_exc()}",
            "comp": comp_name,
            "shard": shard,
        }


def write_replay(pid: str, comp: str, failure: dict) -> str:
    d = os.path.join(REPLAY_DIR, pid)
    os.makedirs(d, exist_ok=True)
    payload = {
        "property": pid,
        "component": comp,
        "clause": failure["clause"],
        "detail": failure["detail"],
        "extra": failure.get("extra", {}),
        "case": failure["case"],
    }
    path = os.path.join(d, case_hash([comp, failure["case"]]) + ".json")
    with open(path, "w", encoding="utf-8") as f:
        json.dump(payload, f, indent=1, default=str)
    return path


def replay_file(path: str) -> Optional[Violation]:
    """Re-run one saved case without Hypothesis. Returns the Violation or None."""
    _quiet_tealer()
    with open(path, encoding="utf-8") as f:
        payload = json.load(f)
    mod = get_module(payload["property"])
    comps = mod.components("quick", [])
    comp = comps[payload["component"]]
    case = payload["case"]
    if "decode" in comp:
        case = comp["decode"](case)
    import contextlib
    import io

    try:
        with contextlib.redirect_stdout(io.StringIO()), contextlib.redirect_stderr(io.StringIO()):
            comp["check"](case)
    except Violation as v:
        return v
    return None


def run_known(pid: str) -> List[dict]:
    """Replay every listed finding; print KNOWN-FINDING if it still fails."""
    seen = []
    for e in load_known(pid):
        if e.get("status", "open") != "open":
            continue
        path = os.path.join(ROOT, e["replay"])
        v = replay_file(path)
        if v is not None:
            print(f"KNOWN-FINDING: property={pid} {e['id']}: {e['what_fails']}")
            seen.append({"id": e["id"], "still_fails": True, "clause": v.clause})
        else:
            print(f"note: listed finding {e['id']} no longer reproduces")
            seen.append({"id": e["id"], "still_fails": False})
    return seen


def run_fixed_regressions(pid: str) -> List[str]:
    """Replay the inputs of fixed findings: they must pass now, else VIOLATION."""
    bad = []
    if not os.path.exists(KNOWN_FILE):
        return bad
    with open(KNOWN_FILE, encoding="utf-8") as f:
        data = json.load(f)
    for e in data.get("fixed", []):
        if e.get("property") != pid or not e.get("replay"):
            continue
        path = os.path.join(ROOT, e["replay"])
        if not os.path.exists(path):
            continue
        v = replay_file(path)
        if v is not None:
            bad.append(path)
    return bad


def main_run(pid: str, tier: str, seed_val: int) -> int:
    import multiprocessing as mp

    t0 = time.time()
    mod = get_module(pid)
    disabled = disabled_features(pid)
    try:
        comps = mod.components(tier, disabled)
    except Exception as e:  # pylint: disable=broad-except
        print(f"HARNESS-ERROR {pid}: {e}\n{traceback.format_exc()}", file=sys.stderr)
        return 2

    only = os.environ.get("VERIF_ONLY")
    if only and os.environ.get("VERIF_EVIDENCE_DIR"):
        # development aid (sensitivity runs with redirected evidence only): run a subset of the components
        comps = {k: v for k, v in comps.items() if k in only.split(",")}

    known_seen = run_known(pid)
    regress_bad = run_fixed_regressions(pid)

    jobs = []
    for cname, comp in comps.items():
        if "enumerate" in comp:
            ns = comp.get("shards", NPROC)
            for s in range(ns):
                jobs.append(("enum", (pid, cname, tier, s, ns, disabled)))
        else:
            # VERIF_SCALE: fraction of the tier's case count (e.g. 0.1 of the thorough tier as a time-boxed run)
            n = max(1, int(comp["examples"] * float(os.environ.get("VERIF_SCALE") or 1)))
            ns = min(NPROC, max(1, n // max(1, comp.get("min_per_shard", 20))))
            per = max(1, n // ns)
            for s in range(ns):
                jobs.append(("hyp", (pid, cname, tier, seed_val, s, per, disabled)))

    # ProcessPoolExecutor (unlike multiprocessing.Pool) notices a worker that died (e.g. killed by the OS)
    # and fails the run instead of waiting for ever; that is a harness error, never a violation.
    import concurrent.futures as cf

    ctx = mp.get_context("fork")
    results = []
    limit = float(os.environ.get("VERIF_TIMEOUT") or (2400 if tier == "quick" else 6 * 3600))
    pool = cf.ProcessPoolExecutor(max_workers=NPROC, mp_context=ctx)
    try:
        futs = []
        for kind, a in jobs:
            fn = _enum_worker if kind == "enum" else _worker
            futs.append(pool.submit(fn, a))
        pending = set(futs)
        first_failure_at = None
        grace = float(os.environ.get("VERIF_GRACE") or 180)
        while pending:
            budget = limit - (time.time() - t0)
            if first_failure_at is not None:
                # a violation is already in hand: the other shards get a grace period to finish (a case on
                # which the code under test does not terminate must not turn a found violation into "inconclusive")
                budget = min(budget, grace - (time.time() - first_failure_at))
            if budget <= 0:
                if first_failure_at is None:
                    raise cf.TimeoutError()
                for proc in list(getattr(pool, "_processes", {}).values()):
                    proc.kill()
                print(f"note: {len(pending)} shard(s) still running {grace:.0f}s after a violation was found were stopped", file=sys.stderr)
                break
            done, pending = cf.wait(pending, timeout=min(budget, 5.0), return_when=cf.FIRST_COMPLETED)
            for f in done:
                r = f.result()
                results.append(r)
                if r.get("failure") is not None and first_failure_at is None:
                    first_failure_at = time.time()
        pool.shutdown(wait=not pending, cancel_futures=True)
    except cf.TimeoutError:
        # a time budget hit means "inconclusive", never a violation
        for proc in list(getattr(pool, "_processes", {}).values()):
            proc.kill()
        pool.shutdown(wait=False, cancel_futures=True)
        print(f"HARNESS-ERROR {pid}: time limit of {limit:.0f}s reached, run inconclusive", file=sys.stderr)
        return 2
    except cf.process.BrokenProcessPool as e:
        print(f"HARNESS-ERROR {pid}: a worker process died ({e})", file=sys.stderr)
        return 2

    errors = [r for r in results if "error" in r]
    if errors:
        for r in errors[:3]:
            print(f"HARNESS-ERROR {pid} comp={r['comp']} shard={r['shard']}: {r['error']}", file=sys.stderr)
        return 2

    total = Stats()
    per_comp: Dict[str, Stats] = {}
    failures = []
    for r in results:
        total.merge(r["stats"])
        per_comp.setdefault(r["comp"], Stats()).merge(r["stats"])
        if r["failure"] is not None:
            failures.append((r["comp"], r["failure"]))

    violations = 0
    replay_paths = []
    seen_clause = set()
    for cname, fl in failures:
        path = write_replay(pid, cname, fl)
        if path in replay_paths:
            continue
        replay_paths.append(path)
        violations += 1
        if (cname, fl["clause"]) in seen_clause:
            continue
        seen_clause.add((cname, fl["clause"]))
        print(f"VIOLATION property={pid} replay={path}")
        print(f"  component={cname} clause={fl['clause']} detail={fl['detail'][:600]}")
    for path in regress_bad:
        violations += 1
        print(f"VIOLATION property={pid} replay={path}")
        print("  a finding recorded as fixed fails again")

    wall = time.time() - t0
    evidence = {
        "property_id": pid,
        "tier": tier,
        "seed": seed_val,
        "level": "exploration",
        "coverage": {
            "evaluations": total.evaluations,
            "distinct_nontrivial": len(total.nontrivial_keys),
            "rule": mod.RULE,
            "samples": total.samples[:4] if total.samples else ["(no sample recorded)"],
            "components": {
                c: {
                    "evaluations": s.evaluations,
                    "distinct_nontrivial": len(s.nontrivial_keys),
                    "features": dict(sorted(s.features.items())),
                    "counters": dict(sorted(s.counters.items())),
                    "exhaustive": bool(comps[c].get("exhaustive", False)),
                }
                for c, s in per_comp.items()
            },
            "excluded_features": disabled,
            "known_findings": known_seen,
        },
        "assumptions": getattr(mod, "ASSUMPTIONS", []),
        "wall_s": round(wall, 2),
        "violations": violations,
    }
    os.makedirs(EVIDENCE_DIR, exist_ok=True)
    with open(os.path.join(EVIDENCE_DIR, f"{pid}.json"), "w", encoding="utf-8") as f:
        json.dump(evidence, f, indent=1, default=str)
    print(
        f"{pid} tier={tier} seed={seed_val}: evaluations={total.evaluations} "
        f"distinct_nontrivial={len(total.nontrivial_keys)} violations={violations} wall={wall:.1f}s"
    )
    return 1 if violations else 0
