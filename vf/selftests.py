"""Hand-written expectations for the reference oracles (consequences of the AVM spec)."""
from vf import linegram as lg
from vf import rops


def t_linegram():
    assert lg.decode_int("0x10") == 16 and lg.decode_int("010") == 8 and lg.decode_int("0") == 0
    assert lg.decode_int("08") is None
    assert lg.recognise("int 0x10") == ("int", [16])
    assert lg.recognise("int pay") == ("int", [1])
    assert lg.recognise('byte "a\\x41"') == ("byte", [b"aA".hex()])
    assert lg.recognise("byte base64 AA//") == ("byte", ["000fff"])
    assert lg.recognise("gtxn 1 Fee") == ("gtxn", [1, "Fee"])
    assert lg.recognise("Gtxns Fee") is None
    assert lg.recognise("dup3") is None
    assert lg.tokenize('byte "a b" // c') == ["byte", '"a b"']


def t_rops_pyteal():
    """R-OPS vs the tables that ship with PyTeal (version floor 2, mode)."""
    from pyteal.ir.ops import Op as POp, Mode

    bad = []
    for op in POp:
        name = op.value.value
        if name not in rops.OPS:
            continue
        r = rops.OPS[name]
        if not r.certain:
            continue
        pmode = {Mode.Signature: "S", Mode.Application: "P"}.get(op.value.mode, "A")
        if max(r.version, 2) != op.value.min_version or pmode != r.mode:
            bad.append((name, r.version, r.mode, op.value.min_version, pmode))
    assert not bad, f"R-OPS disagrees with PyTeal: {bad}"
    import pyteal

    for f in pyteal.TxnField:
        nm = f.arg_name
        ref = rops.TXN_FIELDS.get(nm, rops.TXN_ARRAY_FIELDS.get(nm))
        if ref is None:
            continue
        assert max(ref, 2) == f.min_version, (nm, ref, f.min_version)


ALL = [("linegram", t_linegram), ("rops_vs_pyteal", t_rops_pyteal)]


def _run(src_items, version=8, mode="lsig", size=1, index=0, own=None, members=None):
    from vf import ravm
    from vf.rcfg import RCFG

    g = RCFG({"version": version, "items": src_items})
    e = ravm.Env(mode)
    e.size, e.index = size, index
    e.members = {index: dict(own or {})}
    for k, v in (members or {}).items():
        e.members[k] = dict(v)
    return ravm.run(g, e)


def t_ravm():
    from vf.ir import I, L
    from vf import ravm

    assert _run([I("int", 1), I("return")]).accepted
    assert not _run([I("int", 0), I("return")]).accepted
    assert _run([I("int", 1)]).accepted  # falls off the end with exactly one non-zero value
    assert not _run([I("int", 1), I("int", 1)]).accepted
    assert not _run([I("int", 1), I("pop")]).accepted
    assert _run([I("int", 5), I("int", 1), I("return")]).accepted  # return ignores the rest of the stack
    assert not _run([I("err")]).accepted
    assert not _run([I("int", 0), I("assert"), I("int", 1)]).accepted
    # branches
    assert _run([I("int", 0), I("bz", "ok"), I("err"), L("ok"), I("int", 1)]).accepted
    assert not _run([I("int", 1), I("bz", "ok"), I("err"), L("ok"), I("int", 1)]).accepted
    assert _run([I("int", 7), I("bnz", "ok"), I("err"), L("ok"), I("int", 1)]).accepted
    assert _run([I("int", 1), I("int", 0), I("bz", "end"), I("err"), L("end")]).accepted  # branch to end of program
    # callsub / retsub
    assert _run([I("callsub", "f"), I("int", 1), I("return"), L("f"), I("retsub")]).accepted
    assert not _run([I("retsub")]).accepted
    r = _run([I("int", 1), I("callsub", "f"), L("f"), I("retsub")])
    assert not r.accepted  # second pass through f: retsub with empty call stack
    assert _run([I("int", 1), I("callsub", "f"), I("return"), L("f"), I("int", 2), I("pop"), I("retsub")]).accepted
    # switch / match
    p = [I("txn", "FirstValid"), I("switch", "a", "b"), I("int", 0), I("return"), L("a"), I("int", 1), I("return"), L("b"), I("err")]
    assert _run(p, own={"FirstValid": 0}).accepted
    assert not _run(p, own={"FirstValid": 1}).accepted
    assert not _run(p, own={"FirstValid": 2}).accepted  # falls through to int 0; return
    m = [I("int", 10), I("int", 20), I("txn", "FirstValid"), I("match", "a", "b"), I("int", 0), I("return"), L("a"), I("err"), L("b"), I("int", 1), I("return")]
    assert _run(m, own={"FirstValid": 20}).accepted
    assert not _run(m, own={"FirstValid": 10}).accepted
    assert not _run(m, own={"FirstValid": 30}).accepted
    # arithmetic panics, comparisons
    assert not _run([I("int", 0), I("int", 1), I("-"), I("pop"), I("int", 1)]).accepted
    assert not _run([I("int", ravm.MAXU64), I("int", 1), I("+"), I("pop"), I("int", 1)]).accepted
    assert _run([I("int", 3), I("int", 5), I("<")]).accepted
    assert not _run([I("int", 5), I("int", 5), I("<")]).accepted
    assert _run([I("int", 5), I("int", 5), I("<=")]).accepted
    assert not _run([I("addr", ravm.ZERO.decode()), I("int", 0), I("==")]).accepted  # type mismatch panics
    assert _run([I("global", "ZeroAddress"), I("addr", ravm.ZERO.decode()), I("==")]).accepted
    # stack ops
    assert _run([I("int", 1), I("int", 0), I("swap"), I("pop")]).accepted is False
    assert _run([I("int", 0), I("int", 1), I("swap"), I("pop")]).accepted is True
    assert _run([I("int", 1), I("int", 0), I("dig", 1), I("return")]).accepted
    assert _run([I("int", 9), I("int", 8), I("int", 1), I("cover", 2), I("pop"), I("pop")]).accepted  # [1,9,8] -> pop,pop -> [1]
    assert _run([I("int", 1), I("int", 8), I("int", 9), I("uncover", 2), I("return")]).accepted  # [8,9,1]
    assert _run([I("int", 0), I("int", 1), I("int", 1), I("select")]).accepted  # C!=0 -> B
    assert not _run([I("int", 0), I("int", 1), I("int", 0), I("select")]).accepted  # C==0 -> A
    assert _run([I("int", 1), I("store", 3), I("load", 3)]).accepted
    assert not _run([I("load", 3)]).accepted  # scratch defaults to 0
    # group access
    assert not _run([I("gtxn", 1, "Fee"), I("pop"), I("int", 1)], size=1).accepted  # index out of range
    assert _run([I("gtxn", 1, "Fee"), I("int", 5), I("==")], size=2, members={1: {"Fee": 5}}).accepted
    assert _run([I("txn", "GroupIndex"), I("int", 1), I("+"), I("gtxns", "Fee"), I("int", 5), I("==")], size=2, members={1: {"Fee": 5}}).accepted
    assert _run([I("gtxn", 0, "Fee"), I("int", 7), I("==")], own={"Fee": 7}).accepted  # gtxn own-index aliases txn
    # intcblock
    assert _run([I("intcblock", 0, 1), I("intc_1")]).accepted
    assert not _run([I("intc_1")]).accepted
    # budget
    assert not _run([L("l"), I("int", 1), I("pop"), I("b", "l")]).accepted
    # modes
    assert not _run([I("global", "CreatorAddress"), I("pop"), I("int", 1)], mode="lsig").accepted
    assert _run([I("global", "CreatorAddress"), I("pop"), I("int", 1)], mode="app").accepted


def t_ravm_search():
    from vf.ir import I
    from vf import ravm
    from vf.rcfg import RCFG

    g = RCFG({"version": 8, "items": [I("txn", "RekeyTo"), I("global", "ZeroAddress"), I("=="), I("assert"), I("txn", "Fee"), I("int", 1000), I("<="), I("return")]})
    acc = [(e, r) for e, r in ravm.search(g, ravm.Env("lsig"), cap=500) if r.accepted]
    assert acc and all(e.own["RekeyTo"] == ravm.ZERO and e.own["Fee"] <= 1000 for e, _ in acc)
    base = ravm.Env("lsig")
    base.own["RekeyTo"] = ravm.ATTACKER
    assert not [1 for e, r in ravm.search(g, base, cap=500) if r.accepted]
    # well-formedness: CloseRemainderTo set forces a payment
    g2 = RCFG({"version": 8, "items": [I("txn", "TypeEnum"), I("int", "appl"), I("=="), I("assert"), I("int", 1)]})
    base = ravm.Env("lsig")
    base.own["CloseRemainderTo"] = ravm.ATTACKER
    assert not [1 for e, r in ravm.search(g2, base, cap=500) if r.accepted]


ALL += [("ravm", t_ravm), ("ravm_search", t_ravm_search)]


def t_rops_shuffle_windows():
    """R-OPS' (pops, pushes) of the shuffling opcodes against their data-movement semantics:
    only the top `pops` values may change and the height changes by pushes - pops."""
    from vf.props.c11 import RefStack, ref_step

    for name in ("pop", "dup", "dup2", "swap"):
        _one_shuffle(name, [], RefStack, ref_step)
    for name in ("dig", "cover", "uncover", "popn", "dupn"):
        for n in range(0, 13):
            _one_shuffle(name, [n], RefStack, ref_step)
    for n in range(1, 13):
        _one_shuffle("bury", [n], RefStack, ref_step)
    # spot checks of the semantics themselves
    s = RefStack(); s.push(list("abc")); ref_step(s, 0, "dig", [2]); assert s.items == list("abca")
    s = RefStack(); s.push(list("abc")); ref_step(s, 0, "cover", [2]); assert s.items == list("cab")
    s = RefStack(); s.push(list("abc")); ref_step(s, 0, "uncover", [2]); assert s.items == list("bca")
    s = RefStack(); s.push(list("abc")); ref_step(s, 0, "bury", [2]); assert s.items == list("cb")
    s = RefStack(); s.push(list("abc")); ref_step(s, 0, "bury", [1]); assert s.items == list("ac")
    s = RefStack(); s.push(list("ab")); ref_step(s, 0, "dupn", [2]); assert s.items == list("abbb")


def _one_shuffle(name, vals, RefStack, ref_step):
    depth = 20
    s = RefStack()
    s.push([("x", i) for i in range(depth)])
    base = list(s.items)
    ref_step(s, 0, name, vals)
    p, q = rops.pops(name, vals), rops.pushes(name, vals)
    assert len(s.items) == depth - p + q, (name, vals, len(s.items))
    assert s.items[: depth - p] == base[: depth - p], (name, vals)


ALL += [("rops_shuffle_windows", t_rops_shuffle_windows)]
