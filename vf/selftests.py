"""Hand-written expectations for the reference oracles (consequences of the AVM spec)."""
from vf import linegram as lg
from vf import rops


def t_linegram():
    assert lg.decode_int("0x10") == 16 and lg.decode_int("010") == 8 and lg.decode_int("0") == 0
    assert lg.decode_int("08") is None
    assert lg.recognise("int 0x10") == ("int", [16])
    assert lg.recognise("int pay") == ("int", [1])
    assert lg.recognise('byte "a\\x41"') == ("byte", [b"aA".hex()])
    assert lg.recognise("byte base64 AA//") == ("byte", ["000fff"])
    assert lg.recognise("gtxn 1 Fee") == ("gtxn", [1, "Fee"])
    assert lg.recognise("Gtxns Fee") is None
    assert lg.recognise("dup3") is None
    assert lg.tokenize('byte "a b" // c') == ["byte", '"a b"']


def t_rops_pyteal():
    """R-OPS vs the tables that ship with PyTeal (version floor 2, mode)."""
    from pyteal.ir.ops import Op as POp, Mode

    bad = []
    for op in POp:
        name = op.value.value
        if name not in rops.OPS:
            continue
        r = rops.OPS[name]
        if not r.certain:
            continue
        pmode = {Mode.Signature: "S", Mode.Application: "P"}.get(op.value.mode, "A")
        if max(r.version, 2) != op.value.min_version or pmode != r.mode:
            bad.append((name, r.version, r.mode, op.value.min_version, pmode))
    assert not bad, f"R-OPS disagrees with PyTeal: {bad}"
    import pyteal

    for f in pyteal.TxnField:
        nm = f.arg_name
        ref = rops.TXN_FIELDS.get(nm, rops.TXN_ARRAY_FIELDS.get(nm))
        if ref is None:
            continue
        assert max(ref, 2) == f.min_version, (nm, ref, f.min_version)


ALL = [("linegram", t_linegram), ("rops_vs_pyteal", t_rops_pyteal)]
