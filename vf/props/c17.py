"""C17 - analysis and every output mode complete on every valid contract."""
from __future__ import annotations

import json
import os

from hypothesis import strategies as st

from vf import cli
from vf.core import Violation, case_hash
from vf.gen_layout import layout_program
from vf.rcfg import RCFG

RULE = (
    "G1 structured programs with all adversarial layout features (dead code that branches or calls, loops, "
    "recursion, branch/call as last instruction, labels at end, empty subroutines, back-to-back labels) and G2 "
    "semantic programs x {detect text, detect --json -, print cfg, subroutine-cfg, call-graph, human-summary, "
    "transaction-context}, run through tealer.__main__.main in-process. Oracle: no exception other than "
    "SystemExit(0), no 'Error:' line, JSON parses with error == null, expected output files exist and are "
    "non-empty. analysis: many more G2 programs (modelled, direct with cross-block connective operands, group-heavy) through "
    "init_tealer_from_single_contract + all nine detectors in-process: no internal error; the same for every program of "
    "the exhaustively enumerated family of single direct checks (field x operator x operand order x negation x consumer x constant spelling). Non-trivial = program uses >= 1 adversarial layout feature or >= 1 subroutine; distinct by source."
)
ASSUMPTIONS = ["generated programs are assembler-valid and enter subroutine bodies only through callsub (by construction)"]

MODES = {
    "detect": ["detect", "--contracts", "{file}"],
    "detect-json": ["--json", "-", "detect", "--contracts", "{file}"],
    "cfg": ["print", "cfg", "--contracts", "{file}"],
    "subroutine-cfg": ["print", "subroutine-cfg", "--contracts", "{file}"],
    "call-graph": ["print", "call-graph", "--contracts", "{file}"],
    "human-summary": ["print", "human-summary", "--contracts", "{file}"],
    "transaction-context": ["print", "transaction-context", "--contracts", "{file}"],
}
NT = {"dead_code_into_live", "dead_block_two_live_successors", "dead_callsite", "back_edge", "branch_to_next_line",
      "branch_last_instruction", "callsub_last_instruction", "label_at_end", "empty_subroutine", "back_to_back_labels",
      "subroutines", "recursion", "dead_code"}


def run_modes(src: str, version, modes=None):
    name = f"c{os.getpid()}"
    for mode, args in MODES.items():
        if modes and mode not in modes:
            continue
        r = cli.run_cli(args, src, name)
        if r.exc is not None:
            raise Violation("internal-error", f"tealer {' '.join(args)} raised {type(r.exc).__name__}: {r.exc}", {"mode": mode})
        if r.exit_code not in (None, 0):
            raise Violation("nonzero-exit", f"tealer {' '.join(args)} exited with {r.exit_code}; stdout tail {r.stdout[-300:]!r} stderr tail {r.stderr[-300:]!r}", {"mode": mode})
        if "Traceback" in r.stderr or "\nError:" in "\n" + r.stdout:
            raise Violation("error-reported", f"tealer {' '.join(args)}: {r.stdout[-300:]!r} {r.stderr[-300:]!r}", {"mode": mode})
        files = r.files()
        for f in files:
            if os.path.getsize(os.path.join(r.out_dir, f)) == 0:
                raise Violation("empty-output-file", f"{mode}: {f} is empty", {"mode": mode})
        if mode == "detect-json":
            start = r.stdout.find("{")
            try:
                js = json.loads(r.stdout[start:])
            except Exception as e:  # pylint: disable=broad-except
                raise Violation("json-unparseable", f"{e}: {r.stdout[:300]!r}", {"mode": mode})
            if js.get("error") is not None:
                raise Violation("json-error-field", f"error = {js.get('error')!r}", {"mode": mode})
            if not isinstance(js.get("result"), list):
                raise Violation("json-result-missing", f"{list(js)}", {"mode": mode})
        elif mode == "cfg" and "full_cfg.dot" not in files:
            raise Violation("output-file-missing", f"cfg: files {files}", {"mode": mode})
        elif mode == "subroutine-cfg" and not any(f.endswith("contract_shortened_cfg.dot") for f in files):
            raise Violation("output-file-missing", f"subroutine-cfg: files {files}", {"mode": mode})
        elif mode == "call-graph" and (version or 1) >= 4 and "call-graph.dot" not in files:
            raise Violation("output-file-missing", f"call-graph: files {files}", {"mode": mode})
        elif mode == "transaction-context" and not any(f.endswith("transaction-context.dot") for f in files):
            raise Violation("output-file-missing", f"transaction-context: files {files}", {"mode": mode})
        elif mode == "human-summary" and not r.stdout.strip():
            raise Violation("no-output", "human-summary printed nothing", {"mode": mode})


def check(case):
    g = RCFG(case)
    feats = g.features()
    run_modes(g.text, case.get("version"))
    return {"nontrivial": bool(NT & set(feats)), "key": case_hash(g.text), "features": feats, "evaluations": 1,
            "counters": {"cli_runs": len(MODES)}}


def check_analysis(case):
    """the analysis itself (parse, function construction with the transaction-context analyses, every
    detector) through the library entry point the command line uses; no output mode involved, so many more
    programs can be tried than through the seven CLI modes"""
    from vf import adapter

    g = RCFG(case)
    try:
        tl = adapter.init_single(g.text)
        adapter.run_detectors(tl, list(adapter.DETECTOR_NAMES))
    except adapter.TealerCrash as e:
        raise Violation("internal-error", f"analysis: {e}\n{g.text}", {"mode": "analysis"})
    feats = g.features()
    return {"nontrivial": bool(NT & set(feats)) or bool(case.get("features")), "key": case_hash(g.text), "features": feats + list(case.get("features", [])), "evaluations": 1}


def components(tier, disabled):
    q = tier == "quick"
    comps = {
        "layout": {"strategy": layout_program(structured=True, max_subs=4), "check": check,
                   "examples": 700 if q else 30000, "min_per_shard": 10, "sample": lambda c, i: RCFG(c).text},
    }
    try:
        from vf.gen_sem import semantic_program

        comps["semantic"] = {"strategy": semantic_program(profile="modelled", disabled=disabled), "check": check,
                             "examples": 500 if q else 20000, "min_per_shard": 10, "sample": lambda c, i: RCFG(c).text}
        from hypothesis import strategies as st

        comps["analysis"] = {"strategy": st.one_of(semantic_program(profile="modelled", disabled=disabled),
                                                   semantic_program(profile="direct", disabled=disabled, xflag=True),
                                                   semantic_program(profile="modelled+group", disabled=disabled)),
                             "check": check_analysis, "examples": 4000 if q else 200000, "sample": lambda c, i: RCFG(c).text}
        # many more layout programs through the analysis alone (dead call sites in front of live labels, calls and
        # branches as last instruction, ...): the seven CLI modes are too slow for more than a few hundred of them
        comps["layout_analysis"] = {"strategy": st.one_of(layout_program(structured=True, max_subs=4), layout_program(structured=True, max_subs=3, reuse_targets=True)),
                                    "check": check_analysis, "examples": 4000 if q else 200000, "sample": lambda c, i: RCFG(c).text}
        from vf.props.single_family import single_cases

        # the finite family of single direct checks (every operator / operand order / constant spelling), exhaustive
        comps["single"] = {"enumerate": single_cases, "check": check_analysis, "exhaustive": True, "shards": 16, "sample": lambda c, i: c["desc"]}
    except ImportError:
        pass
    return comps
