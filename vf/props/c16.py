"""C16 - each source line parses to the instruction it denotes, and prints back."""
from __future__ import annotations

from hypothesis import strategies as st

from vf import linegram as lg
from vf import rops
from vf.core import Violation, case_hash

RULE = (
    "lines: Hypothesis draws an opcode of R-OPS (TEAL v1-v8), immediates from its grammar in random "
    "spellings (dec/hex/octal ints, named constants, hex/base64/base32/quoted bytes, labels that start "
    "with opcode names), random indentation/whitespace/trailing comment; oracle = generator-side truth vs "
    "parse_line + an independent recogniser of str(ins) + round trip. grid: every opcode x every field of "
    "its family (exhaustive). unknown: identifiers outside R-OPS incl. known opcode + suffix must stay "
    "UNSUPPORTED verbatim. program: multi-line programs with blank/comment lines, ins.line must be the "
    "1-based source line. Non-trivial = line has a non-default spelling (non-decimal int, named constant, "
    "non-hex bytes, comment) or its opcode/label shares a prefix with another opcode; distinct by text."
)
ASSUMPTIONS = [
    "R-OPS (vf/rops.py) is the reference for opcode names and immediate grammars (cross-checked with PyTeal)",
    "lexical corners whose assembler treatment is unknown offline are not generated: backslash before the closing quote, 0b/0o/_ integers, ';', switch/match without labels",
]

PREFIXED = set()
for _a in rops.OPS:
    for _b in rops.OPS:
        if _a != _b and (_a.startswith(_b) or _b.startswith(_a)):
            PREFIXED.add(_a)


def _parse_line(text):
    from tealer.teal.instructions.parse_instruction import parse_line

    return parse_line(text)


def check_line(case):
    text, name, vals, feats = case["text"], case["name"], case["vals"], case["feats"]
    from tealer.teal.instructions import instructions as I

    try:
        ins = _parse_line(text)
    except Exception as e:  # pylint: disable=broad-except
        raise Violation("parse-raises", f"parse_line({text!r}) raised {type(e).__name__}: {e}")
    if ins is None:
        raise Violation("parse-none", f"parse_line({text!r}) returned None")
    if isinstance(ins, I.UnsupportedInstruction):
        raise Violation("known-opcode-unsupported", f"{text!r} -> {ins}")
    printed = str(ins)
    rec = lg.recognise(printed)
    if rec is None:
        raise Violation("printed-form-not-teal", f"{text!r} prints as {printed!r}, which the line grammar rejects")
    if rec[0] != name:
        raise Violation("wrong-opcode", f"{text!r} denotes {name} but prints as {printed!r}")
    if rec[1] != vals:
        raise Violation("wrong-immediates", f"{text!r} denotes {name} {vals} but prints as {printed!r} = {rec[1]}")
    # the decoded immediates as the analyses see them (not only as they print)
    if name in ("int", "pushint") and not isinstance(getattr(ins, "value", None), int) and (text.split()[1][:1].isdigit()):
        raise Violation("numeric-immediate-kept-as-text", f"{text!r}: value is {getattr(ins, 'value', None)!r}, a number was written")
    if name in ("int", "pushint") and isinstance(getattr(ins, "value", None), int) and ins.value != vals[0]:
        raise Violation("wrong-immediates", f"{text!r}: value attribute {ins.value} != {vals[0]}")
    if hasattr(ins, "field") and vals and isinstance(vals[-1 if name not in ("gtxna", "txna", "gtxnsa", "itxna", "gitxna") else -2], str):
        fname = vals[-1 if name not in ("gtxna", "txna", "gtxnsa", "itxna", "gitxna") else -2]
        if str(ins.field).split()[0] != fname:
            raise Violation("wrong-field", f"{text!r}: field attribute {ins.field} != {fname}")
    try:
        ins2 = _parse_line(printed)
    except Exception as e:  # pylint: disable=broad-except
        raise Violation("roundtrip-raises", f"parse_line(str(ins))={printed!r} raised {type(e).__name__}: {e}")
    if ins2 is None or type(ins2) is not type(ins) or str(ins2) != printed:
        raise Violation("roundtrip-differs", f"{text!r} -> {printed!r} -> {ins2!r}")
    nontrivial = bool(feats) or name in PREFIXED
    return {"nontrivial": nontrivial, "key": case_hash(text), "features": sorted(set(feats)) + [f"op:{name}"]}


def check_label(case):
    from tealer.teal.instructions import instructions as I

    text, name = case["text"], case["name"]
    try:
        ins = _parse_line(text)
    except Exception as e:  # pylint: disable=broad-except
        raise Violation("parse-raises", f"parse_line({text!r}) raised {type(e).__name__}: {e}")
    if not isinstance(ins, I.Label) or ins.label != name:
        raise Violation("label-misparsed", f"{text!r} should be label {name!r}, got {ins!r}")
    if str(ins) != name + ":":
        raise Violation("label-print", f"{text!r} prints as {str(ins)!r}")
    ins2 = _parse_line(str(ins))
    if not isinstance(ins2, I.Label) or ins2.label != name:
        raise Violation("roundtrip-differs", f"{text!r} -> {str(ins)!r} -> {ins2!r}")
    starts_with_op = any(name.startswith(o) for o in rops.OPS if o[0].isalpha())
    return {"nontrivial": starts_with_op, "key": case_hash(text), "features": ["label"] + (["label_opcode_prefix"] if starts_with_op else [])}


def check_unknown(case):
    from tealer.teal.instructions import instructions as I

    text = case["text"]
    toks = lg.tokenize(text)
    try:
        ins = _parse_line(text)
    except Exception as e:  # pylint: disable=broad-except
        raise Violation("parse-raises", f"parse_line({text!r}) raised {type(e).__name__}: {e}")
    if not isinstance(ins, I.UnsupportedInstruction):
        raise Violation("unknown-opcode-taken-for-known", f"{text!r} is not an opcode of TEAL v1-v8 but parsed as {ins!r}")
    if lg.tokenize(ins.verbatim_line) != toks or str(ins) != "UNSUPPORTED " + ins.verbatim_line:
        raise Violation("unknown-not-verbatim", f"{text!r} kept as {ins.verbatim_line!r} / {str(ins)!r}")
    return {"nontrivial": case["prefix"], "key": case_hash(text), "features": ["unknown_prefix" if case["prefix"] else "unknown_plain"]}


def check_program(case):
    """case: {lines: [text...], expect: [[lineno, name|'label', vals|labelname]...]}"""
    from tealer.teal.parse_teal import parse_teal

    src = "\n".join(case["lines"]) + ("\n" if case.get("final_newline", True) else "")
    try:
        teal = parse_teal(src)
    except BaseException as e:  # parse_teal calls sys.exit on ParseError
        raise Violation("program-parse-raises", f"parse_teal raised {type(e).__name__}: {e} on {src!r}")
    got = {}
    for bb in teal.bbs:
        for ins in bb.instructions:
            if ins.line in got:
                raise Violation("duplicate-line", f"two instructions claim line {ins.line}")
            got[ins.line] = ins
    exp = {e[0]: e for e in case["expect"]}
    if set(got) != set(exp):
        raise Violation("line-numbers", f"instruction lines {sorted(got)} != source lines of instructions {sorted(exp)} in {src!r}")
    for ln, e in exp.items():
        ins = got[ln]
        if e[1] == "label":
            if str(ins) != e[2] + ":":
                raise Violation("line-content", f"line {ln}: expected label {e[2]} got {ins}")
            continue
        if e[1] == "pragma":
            if str(ins) != f"#pragma version {e[2]}":
                raise Violation("line-content", f"line {ln}: expected pragma {e[2]} got {ins}")
            continue
        rec = lg.recognise(str(ins))
        if rec is None or rec[0] != e[1] or rec[1] != e[2]:
            raise Violation("line-content", f"line {ln}: expected {e[1]} {e[2]} got {str(ins)!r}")
    # blocks render as "line: text"
    for bb in teal.bbs:
        rendered = str(bb).splitlines()
        want = [f"{ins.line}: {ins}" for ins in bb.instructions]
        if rendered != want:
            raise Violation("block-render", f"{rendered} != {want}")
    nblank = sum(1 for l in case["lines"] if not l.strip() or l.strip().startswith("//"))
    return {"nontrivial": nblank > 0, "key": case_hash(src), "features": ["program_with_blank_or_comment_lines" if nblank else "program_dense"]}


# straight-line, non-branching opcodes usable in any order for the program component
_STRAIGHT = [n for n, o in rops.OPS.items() if o.kind in ("compute", "shuffle") and n not in ("intcblock", "bytecblock")]


@st.composite
def program_case(draw, allow_slashes):
    lines = []
    expect = []
    version = draw(st.integers(1, 8))
    if draw(st.booleans()):
        for _ in range(draw(st.integers(0, 2))):
            lines.append(draw(st.sampled_from(["", "// header", "   ", "\t// x"])))
        lines.append(f"#pragma version {version}" + draw(st.sampled_from(["", "", " // teal", "  ", "\t//v"])))
        expect.append([len(lines), "pragma", version])
    n = draw(st.integers(1, 12))
    used_labels = set()
    for _ in range(n):
        for _ in range(draw(st.sampled_from([0, 0, 0, 1, 2]))):
            lines.append(draw(st.sampled_from(["", "  ", "// comment", "    // int 1", "//", "\t"])))
        if draw(st.integers(0, 5)) == 0:
            nm = draw(lg.label_names)
            if nm in used_labels:
                continue
            used_labels.add(nm)
            lines.append(draw(lg.indent) + nm + ":" + draw(st.sampled_from(["", " // lbl", "  "])))
            expect.append([len(lines), "label", nm])
        else:
            text, name, vals, _ = draw(lg.source_line(draw(st.sampled_from(_STRAIGHT)), allow_slashes))
            lines.append(text)
            expect.append([len(lines), name, vals])
    for _ in range(draw(st.sampled_from([0, 0, 1, 2]))):
        lines.append(draw(st.sampled_from(["", "// trailer", "  "])))
    return {"lines": lines, "expect": expect, "final_newline": draw(st.booleans())}


def _grid_cases():
    """every opcode x every field of its family / every enum immediate, canonical spelling"""
    out = []
    samp = {
        "u8": ("1", 1), "u64": ("7", 7), "i8": ("-1", -1), "label": ("l1", "l1"),
        "addr": (lg.ADDRS[1], lg.ADDRS[1]),
    }
    enums = {
        "ecdsa": sorted(rops.ECDSA_CURVES), "b64enc": rops.BASE64_ENCODINGS, "jsont": rops.JSON_TYPES,
        "vrfstd": rops.VRF_STANDARDS, "blockf": rops.BLOCK_FIELDS,
        "txnf_any": sorted(rops.TXN_FIELDS) + sorted(rops.TXN_ARRAY_FIELDS),
    }
    for k, fam in rops.FIELD_FAMILIES.items():
        enums[k] = sorted(fam)
    for name, op in rops.OPS.items():
        var_positions = [i for i, k in enumerate(op.imm) if k in enums]
        choices = enums[op.imm[var_positions[0]]] if var_positions else [None]
        for ch in choices:
            toks, vals = [], []
            for i, k in enumerate(op.imm):
                if k in enums:
                    toks.append(ch)
                    vals.append(ch)
                elif k in samp:
                    toks.append(samp[k][0])
                    vals.append(samp[k][1])
                elif k == "labels":
                    toks += ["l1", "l2"]
                    vals.append(["l1", "l2"])
                elif k == "ints":
                    toks += ["1", "2"]
                    vals.append([1, 2])
                elif k == "bytes":
                    toks.append("0x01ff")
                    vals.append("01ff")
                elif k == "bytess":
                    toks += ["0x01", "0x02"]
                    vals.append(["01", "02"])
                elif k == "method":
                    toks.append('"a()void"')
                    vals.append("a()void")
                elif k == "u8opt":
                    toks.append("0")
                    vals.append(0)
                else:
                    raise AssertionError(k)
            out.append({"text": " ".join([name] + toks), "name": name, "vals": vals, "feats": ["grid"]})
    return out


V9PLUS = ["box_splice", "box_resize", "ec_add", "ec_scalar_mul", "ec_pairing_check", "ec_multi_scalar_mul", "ec_subgroup_check", "ec_map_to", "mimc", "voter_params_get", "online_stake", "incentive_eligible", "falcon_verify", "sumhash512"]


@st.composite
def unknown_case(draw):
    kind = draw(st.integers(0, 3))
    alpha_ops = [o for o in lg.OPNAMES if o[0].isalpha()]
    if kind == 0:
        base = draw(st.sampled_from(alpha_ops))
        name = base + draw(st.sampled_from(["x", "1", "_", "s", "2", "_ex", "w", "3", "0"]))
        prefix = True
    elif kind == 1:
        base = draw(st.sampled_from(alpha_ops))
        name = draw(st.sampled_from(["x", "g", "i", "_", "my"])) + base
        prefix = False
    elif kind == 2:
        name = draw(st.sampled_from(V9PLUS))
        prefix = any(name.startswith(o) for o in alpha_ops)
    else:
        name = draw(st.text(alphabet=lg.IDENT_CHARS[:52] + "_", min_size=2, max_size=10))
        prefix = any(name.startswith(o) for o in alpha_ops)
    if name in rops.OPS or name.endswith(":"):
        name = "zz_" + name
        prefix = False
    args = draw(st.lists(st.sampled_from(["1", "0x10", "Fee", "lbl", "07"]), max_size=3))
    text = draw(lg.indent) + name
    for a in args:
        text += draw(lg.ws) + a
    c = draw(lg.comment_text)
    if c:
        text += " " + c
    return {"text": text, "prefix": prefix}


@st.composite
def label_case(draw):
    nm = draw(lg.label_names)
    text = draw(lg.indent) + nm + ":" + draw(st.sampled_from(["", " ", "\t", " // c", "  //x y"]))
    return {"text": text, "name": nm}


def components(tier, disabled):
    allow_slashes = "b64_with_slashes" not in disabled
    no_method = "method_pseudo_op" in disabled
    q = tier == "quick"

    def line_strategy():
        names = [n for n in lg.OPNAMES if not (no_method and n == "method")]
        return st.sampled_from(names).flatmap(lambda n: lg.source_line(n, allow_slashes)).map(
            lambda t: {"text": t[0], "name": t[1], "vals": t[2], "feats": t[3]}
        )

    comps = {
        "lines": {"strategy": line_strategy(), "check": check_line, "examples": 40000 if q else 1500000,
                  "sample": lambda c, i: c["text"]},
        "grid": {"enumerate": lambda: [c for c in _grid_cases() if not (no_method and c["name"] == "method")],
                 "check": check_line, "exhaustive": True, "shards": 4, "sample": lambda c, i: c["text"]},
        "labels": {"strategy": label_case(), "check": check_label, "examples": 4000 if q else 100000,
                   "sample": lambda c, i: c["text"]},
        "program": {"strategy": program_case(allow_slashes), "check": check_program, "examples": 3000 if q else 100000,
                    "sample": lambda c, i: c["lines"]},
    }
    if "unknown_opcode_prefix" not in disabled:
        comps["unknown"] = {"strategy": unknown_case(), "check": check_unknown, "examples": 6000 if q else 200000,
                            "sample": lambda c, i: c["text"]}
    return comps
