"""C02 - every reported path is a genuine, unvalidated accepting path."""
from __future__ import annotations

from vf import adapter, linegram
from vf.core import Violation, case_hash
from vf.gen_sem import semantic_program
from vf.props.common_sem import Analysed
from vf.props.detectors_ref import DANGER, lit_valuations
from vf.rcfg import RCFG
from vf.rlit import Lit

RULE = (
    "G2 modelled-fragment programs (subroutines shared by several call sites, nested calls, loops inside "
    "subroutines, recursion, subroutines that approve internally), all nine detectors. Every reported path is "
    "checked by an independent path checker over R-CFG: starts at the entry; each step is a control-flow "
    "successor with an explicit call stack (callsub -> callee entry, retsub -> block after the matching "
    "callsub); ends in a block with no successor that is neither callsub nor retsub; no block repeats inside "
    "one subroutine activation; at no block the dangerous value is excluded (re-evaluated from the public "
    "context objects, incl. the per-possible-index gtxn contexts); group-size paths contain an absolute-index "
    "read; no duplicates; short notation, JSON short/blocks/count denote exactly that block sequence. "
    "Non-trivial = >= 1 reported path crosses a call/return or a loop; distinct by source."
)
ASSUMPTIONS = ["R-CFG is the reference graph; exclusion predicates are re-implemented from the detectors' documentation"]


def _types(ctx):
    return {str(t) for t in ctx.transaction_types}


CHECKS = {
    "rekey-to": lambda c: not c.rekeyto.any_addr,
    "can-close-account": lambda c: not (c.closeto.any_addr and "Pay" in _types(c)),
    "can-close-asset": lambda c: not (c.assetcloseto.any_addr and "Axfer" in _types(c)),
    "missing-fee-check": lambda c: c.max_fee_unknown or c.max_fee <= 272000,
    "is-updatable": lambda c: "ApplUpdateApplication" not in _types(c),
    "is-deletable": lambda c: "ApplDeleteApplication" not in _types(c),
    "unprotected-updatable": lambda c: not ("ApplUpdateApplication" in _types(c) and c.sender.any_addr),
    "unprotected-deletable": lambda c: not ("ApplDeleteApplication" in _types(c) and c.sender.any_addr),
    "group-size-check": lambda c: False if c.is_gtxn_context else 16 not in c.group_sizes,
}


def excluded(det, ctx) -> bool:
    chk = CHECKS[det]
    if chk(ctx):
        return True
    return all(chk(ctx.gtxn_context(i)) for i in ctx.group_indices)


def _norm(text: str):
    """instruction text -> comparable form"""
    text = text.strip()
    if text.endswith(":") and " " not in text:
        return ("label", text[:-1])
    if text.startswith("#pragma version"):
        return ("pragma", int(text.split()[-1]))
    r = linegram.recognise(text)
    return r if r is not None else ("raw", " ".join(text.split()))


def check(case):
    an = Analysed(case)
    g = an.g
    lit = Lit(g, case["items"])
    names = list(DANGER)
    try:
        res = adapter.run_detectors(an.tealer, names)
    except adapter.TealerCrash as e:
        raise Violation("detector-crash", f"{e}\n{g.text}")
    entry_line = g.seq[0].line
    idx_seen = {}
    for b in an.function.blocks:
        if b.idx in idx_seen and idx_seen[b.idx] is not b:
            raise Violation("block-id-not-unique", f"two blocks of the function share id {b.idx}")
        idx_seen[b.idx] = b
    npaths = 0
    crossing = False
    for det in names:
        out = res[det]
        seen = set()
        js = out.to_json()
        if js.get("count") != len(out.paths) or len(js.get("paths", [])) != len(out.paths):
            raise Violation("json-count", f"{det}: count={js.get('count')} listed={len(js.get('paths', []))} paths={len(out.paths)}")
        for k, path in enumerate(out.paths):
            npaths += 1
            lines = [b.entry_instr.line for b in path]
            where = f"{det} path {lines}\n{g.text}"
            key = tuple(id(b) for b in path)
            if key in seen or tuple(lines) in {tuple(x) for x in []}:
                raise Violation("duplicate-path", where)
            seen.add(key)
            if not path or lines[0] != entry_line:
                raise Violation("path-start", f"does not start at the entry: {where}")
            for b in path:
                if an.block_by_line.get(b.entry_instr.line) is not b:
                    raise Violation("foreign-block", f"block at line {b.entry_instr.line} is not a block of the function: {where}")
            calls = []
            activations = [set()]
            for j, b in enumerate(path):
                last = g.by_line[b.instructions[-1].line]
                if b.entry_instr.line in activations[-1]:
                    raise Violation("block-revisited", f"line {b.entry_instr.line} twice in one activation: {where}")
                activations[-1].add(b.entry_instr.line)
                if excluded(det, an.function.transaction_context(b)):
                    raise Violation("validated-block-on-path", f"block at line {b.entry_instr.line} excludes the dangerous value: {where}")
                if j == len(path) - 1:
                    if g.succ_lines(last.line) or last.op in ("callsub", "retsub"):
                        raise Violation("path-end", f"ends at line {last.line} ({last.text}) where execution cannot terminate: {where}")
                    break
                nxt = path[j + 1].entry_instr.line
                if last.op == "callsub":
                    want = g.seq[g.label_at[last.imm[0]]].line
                    if nxt != want:
                        raise Violation("call-edge", f"after callsub at line {last.line} comes line {nxt}, callee entry is {want}: {where}")
                    calls.append(last.line)
                    activations.append(set())
                    crossing = True
                elif last.op == "retsub":
                    if not calls:
                        raise Violation("return-without-call", where)
                    cs_line = calls.pop()
                    activations.pop()
                    want = g.return_point_line(cs_line)
                    if nxt != want:
                        raise Violation("return-edge", f"retsub at line {last.line} returns to {nxt}, the block after its callsub (line {cs_line}) is {want}: {where}")
                else:
                    if nxt not in g.succ_lines(last.line):
                        raise Violation("edge", f"line {last.line} -> line {nxt} is not a control-flow edge: {where}")
                    if nxt <= b.entry_instr.line:
                        crossing = True
            if det == "group-size-check":
                if not any(lit.abs_read_block[lit.block_by_line[l]] for l in lines):
                    raise Violation("group-size-path-without-absolute-index", where)
            # renderings
            short = " -> ".join(str(b.idx) for b in path)
            if out._short_notation(path) != short or js["paths"][k]["short"] != short:  # pylint: disable=protected-access
                raise Violation("short-notation", f"{out._short_notation(path)!r} / {js['paths'][k]['short']!r} != {short!r}")  # pylint: disable=protected-access
            jb = js["paths"][k]["blocks"]
            if len(jb) != len(path):
                raise Violation("json-blocks", f"{len(jb)} blocks listed for a path of {len(path)}")
            for b, rows in zip(path, jb):
                want_rows = [(nd.line, _norm(nd.text)) for nd in (g.by_line[i.line] for i in b.instructions)]
                got_rows = []
                for r in rows:
                    ln, _, txt = r.partition(": ")
                    got_rows.append((int(ln), _norm(txt)))
                if got_rows != want_rows:
                    raise Violation("json-block-text", f"block at line {b.entry_instr.line}: {rows} != source {want_rows}")
    return {"nontrivial": crossing and npaths > 0, "key": case_hash(g.text), "features": case.get("features", []),
            "counters": {"reported_paths": npaths}}


def check_literal(case):
    """'contains no block at which the dangerous value has been excluded', read on the contract itself: on
    programs whose checks are consumed in the block that computes them (operands from other blocks are opaque)
    a block is excluded for a detector when no accepting walk through it admits the dangerous value under the
    literal reading (two-field detectors: one field at a time). Such a block must not lie on a reported path."""
    an = Analysed(case)
    g = an.g
    lit = Lit(g, case["items"])
    names = list(DANGER)
    try:
        res = adapter.run_detectors(an.tealer, names)
    except adapter.TealerCrash as e:
        raise Violation("detector-crash", f"{e}\n{g.text}")
    npaths = 0
    nchecked = 0
    for det in names:
        paths = res[det].paths
        if not paths:
            continue
        alts = lit_valuations(det, g)
        ci_sets = [[lit.walks(v)[1] for v in alt] for alt in alts]
        for path in paths:
            npaths += 1
            for b in path:
                bi = lit.block_by_line.get(b.entry_instr.line)
                if bi is None:
                    continue
                nchecked += 1
                # admitted at the block under some alternative: every field of the alternative, read on its own,
                # leaves an accepting walk through the block
                if not any(all(bi in ci for ci in alt_ci) for alt_ci in ci_sets):
                    lines = [x.entry_instr.line for x in path]
                    raise Violation("literally-excluded-block-on-path", f"{det}: reported path {lines} goes through the block at line {b.entry_instr.line}, but reading the checks literally no accepting execution through that block carries the dangerous value\n{g.text}", {"detector": det})
    feats = set(case.get("features", []))
    return {"nontrivial": npaths > 0 and bool(lit.block_fields()) and bool({"xconn", "and", "or", "not", "const_left"} & feats),
            "key": case_hash(g.text), "features": sorted(feats), "counters": {"reported_paths": npaths, "path_blocks_checked": nchecked}}


def components(tier, disabled):
    q = tier == "quick"
    # the literal component reads checks exactly, so the shapes behind C03's known findings stay switched off for it
    from vf.core import disabled_features

    lit_off = sorted(set(disabled) | set(disabled_features("C03")))
    return {
        "literal": {"strategy": semantic_program(profile="direct", disabled=lit_off, max_stmts=(12 if q else 18), xflag=True),
                    "check": check_literal, "examples": 1600 if q else 60000, "sample": lambda c, i: RCFG(c).text},
        "loopcalls": {"strategy": semantic_program(profile="modelled", disabled=disabled, max_stmts=(10 if q else 16), loop_bias=True),
                      "check": check, "examples": 500 if q else 30000, "sample": lambda c, i: RCFG(c).text},
        "lsig": {"strategy": semantic_program(profile="modelled", disabled=disabled, max_stmts=(12 if q else 18), mode="lsig"),
                 "check": check, "examples": 1600 if q else 70000, "sample": lambda c, i: RCFG(c).text},
        "app": {"strategy": semantic_program(profile="modelled", disabled=disabled, max_stmts=(12 if q else 18), mode="app"),
                "check": check, "examples": 1200 if q else 50000, "sample": lambda c, i: RCFG(c).text},
    }
