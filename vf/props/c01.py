"""C01 - detectors never miss an approvable dangerous transaction."""
from __future__ import annotations

from vf import adapter
from vf.core import Violation, case_hash
from vf.gen_sem import semantic_program
from vf.props.common_sem import Analysed
from vf.props.detectors_ref import DANGER, GOVERNED_FIELDS, find_witness
from vf.rcfg import RCFG

RULE = (
    "G2 modelled-fragment programs (logic-sig and application flavour; checks on the governed fields in both "
    "operand orders, six operators, &&/||/!, placed in other blocks, loops, shared/nested subroutines, "
    "subroutines that approve internally, shuffles, scratch). For each of the nine path-reporting detectors the "
    "R-AVM valuation search looks for an accepted execution whose governed transaction carries the dangerous "
    "value (fresh attacker address in RekeyTo / CloseRemainderTo on pay / AssetCloseTo on axfer, Fee in {272001, "
    "2^64-1}, appl call with OnCompletion Update/Delete (+ fresh Sender), GroupSize 16 with a read of another "
    "member by absolute index); only well-formed transactions are witnesses. Witness found => the detector must "
    "report >= 1 path. Nothing is demanded without a witness. Non-trivial (per program x detector) = the program "
    "checks a governed field of the detector and the search saw both an accepted and a rejected dangerous "
    "execution, or only rejected ones; distinct by (source, detector). single: the finite family of single direct "
    "checks (one comparison of one governed field with one constant - all operators, both operand orders, plain "
    "and negated, consumed by assert/return/bz/bnz, every constant of the pools incl. the boundary values and "
    "named spellings) is enumerated exhaustively under the same witness oracle."
)
ASSUMPTIONS = ["R-AVM is the reference interpreter; the witness search is capped (a cap can hide a violation, never invent one)"]


def _reads(case):
    out = set()
    for it in case["items"]:
        if it[0] == "I" and it[1] in ("txn", "gtxn", "gtxns"):
            out.add(it[2][-1])
        if it[0] == "I" and it[1] == "global" and it[2][0] == "GroupSize":
            out.add("GroupSize")
    return out


def check(case):
    an = Analysed(case)
    g = an.g
    names = list(DANGER)
    try:
        res = adapter.run_detectors(an.tealer, names)
    except adapter.TealerCrash as e:
        raise Violation("detector-crash", f"{e}\n{g.text}")
    reads = _reads(case)
    nt_keys = []
    counters = {"witnesses": 0, "capped_searches": 0}
    feats = list(case.get("features", []))
    # a Fee comparison against an `intc` whose constant block the tool cannot resolve (intcblock outside the entry
    # block, or more than one intcblock) is, for the tool, a comparison with a value it cannot evaluate: its
    # documented heuristic, which the statement of C01 puts outside the claim
    unresolved = bool({"intcblock_not_in_entry_block", "second_intcblock_in_later_block", "second_intcblock_in_subroutine"} & set(feats))
    for det in names:
        if det == "missing-fee-check" and unresolved and "Fee" in reads:
            counters["outside_claim_fee_vs_unresolved_constant"] = counters.get("outside_claim_fee_vs_unresolved_constant", 0) + 1
            continue
        wit, rejected, capped = find_witness(g, det, an.mode, cap=case.get("cap", 250))
        counters["capped_searches"] += int(capped)
        checks_field = bool(reads & set(GOVERNED_FIELDS[det]))
        if wit is not None:
            counters["witnesses"] += 1
            env, r = wit
            if len(res[det].paths) == 0:
                raise Violation("missed", f"{det}: the contract approves a transaction carrying the dangerous value ({env.describe()}; executed lines {[g.seq[i].line for i in r.trace]}) but the detector reports no path\n{g.text}", {"detector": det})
            if checks_field and rejected > 0:
                nt_keys.append(case_hash([g.text, det]))
        elif checks_field and rejected > 0 and not capped:
            nt_keys.append(case_hash([g.text, det]))
    return {"nontrivial_keys": nt_keys, "features": feats, "counters": counters, "evaluations": len(names)}


def check_single(case):
    """single direct checks (exhaustive family): a witness obliges each detector the check can decide"""
    an = Analysed(case)
    g = an.g
    names = case["detectors"]
    try:
        res = adapter.run_detectors(an.tealer, names)
    except adapter.TealerCrash as e:
        raise Violation("detector-crash", f"{e}\n{g.text}")
    counters = {"witnesses": 0, "no_witness": 0}
    for det in names:
        wit, _rejected, capped = find_witness(g, det, an.mode, cap=600)
        if wit is None:
            counters["no_witness"] += int(not capped)
            continue
        counters["witnesses"] += 1
        env, r = wit
        if len(res[det].paths) == 0:
            raise Violation("missed", f"{det}: single check {case['desc']}: the contract approves a transaction carrying the dangerous value ({env.describe()}) but the detector reports no path\n{g.text}", {"detector": det})
    return {"nontrivial": case["nt"], "key": case_hash(g.text), "features": [case["desc"].split(":")[0]], "counters": counters, "evaluations": len(names)}


def components(tier, disabled):
    q = tier == "quick"
    from vf.props.single_family import single_cases

    return {
        "single": {"enumerate": single_cases, "check": check_single, "exhaustive": True, "shards": 16, "sample": lambda c, i: c["desc"]},
        # theme: loops whose body calls subroutines that call further subroutines, the same subroutine called again later
        "loopcalls": {"strategy": semantic_program(profile="modelled", disabled=disabled, max_stmts=(10 if q else 16), loop_bias=True),
                      "check": check, "examples": 500 if q else 30000, "sample": lambda c, i: RCFG(c).text},
        "lsig": {"strategy": semantic_program(profile="modelled", disabled=disabled, max_stmts=(12 if q else 18), mode="lsig"),
                 "check": check, "examples": 1400 if q else 80000, "sample": lambda c, i: RCFG(c).text},
        "app": {"strategy": semantic_program(profile="modelled", disabled=disabled, max_stmts=(12 if q else 18), mode="app"),
                "check": check, "examples": 1000 if q else 60000, "sample": lambda c, i: RCFG(c).text},
    }
