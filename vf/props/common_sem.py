"""Shared pieces of the semantic (G2) checks."""
from __future__ import annotations

from typing import Any, Dict, List, Optional, Set, Tuple

from vf import adapter, ravm
from vf.core import Violation
from vf.rcfg import RCFG


class Analysed:
    """program + reference graph + tealer's analysis (single-contract mode)"""

    def __init__(self, case: dict, deep: bool = False):
        self.case = case
        self.g = RCFG(case)
        self.mode = case.get("mode") or ("app" if ravm.flavour(self.g) == "app" else "lsig")
        try:
            self.tealer = adapter.init_single(self.g.text)
        except adapter.TealerCrash as e:
            raise Violation("analysis-crash", f"{e}\n{self.g.text}")
        self.teal, self.function = adapter.single_function(self.tealer)
        self.block_by_line = {b.entry_instr.line: b for b in self.function.blocks}
        self.first_line = [self.g.seq[b[0]].line for b in self.g.blocks]
        ref_lines = set(self.first_line)
        fn_lines = set(self.block_by_line)
        reach = self.g.reach_from(self.g.seq[0].line, follow_calls=True)
        exp = {l for l in ref_lines if l in reach}
        if fn_lines != exp:
            raise Violation("block-structure", f"function blocks start at lines {sorted(fn_lines)}, reference {sorted(exp)}\n{self.g.text}")

    def ctx(self, line: int):
        return self.function.transaction_context(self.block_by_line[line])

    def trace_block_lines(self, trace: List[int]) -> List[int]:
        out: List[int] = []
        for i in trace:
            l = self.first_line[self.g.block_of[i]]
            if not out or out[-1] != l:
                out.append(l)
        return out


def accepted_executions(an: Analysed, base: Optional[ravm.Env] = None, cap: int = 600, restrict=None):
    base = base or ravm.Env(an.mode)
    for env, res in ravm.search(an.g, base, cap=cap, restrict=restrict):
        if res.accepted:
            yield env, res
