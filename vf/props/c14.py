"""C14 - results depend on the input only: no history, order or hash-seed effects."""
from __future__ import annotations

import json
import os
import subprocess
import sys

from hypothesis import strategies as st

from vf import adapter
from vf.adapter import DETECTOR_NAMES, OPT_DETECTOR_NAMES

ALL_DETECTORS = list(DETECTOR_NAMES) + list(OPT_DETECTOR_NAMES)
from vf.core import ROOT, HarnessError, Violation, case_hash
from vf.gen_sem import semantic_program
from vf.rcfg import RCFG
from vf.snapshot import snapshot_source

RULE = (
    "A case is a pool of 2-3 G2 programs plus a history of 3-10 operations in one process (analyse program i; "
    "run a drawn subset of detectors in a drawn order, possibly twice; analyse several programs with one Tealer "
    "object and run detectors over all of them; build the function again; build two functions (dispatch paths) of "
    "one contract on the same parse in a drawn order - the first one's contexts must equal those of the function built alone; run a printer). After every operation the canonical snapshot of the program touched (per-block contexts incl. "
    "all per-index / absolute / relative sub-contexts, ordered paths per detector, the JSON of every detector) "
    "must equal its baseline = the snapshot computed for that program alone in a fresh subprocess with "
    "PYTHONHASHSEED=0; a second fresh subprocess with another hash seed must give byte-identical output; "
    "contexts are snapshotted before and after the detectors run. Pool programs are decorated with stack-neutral pairs the "
    "instruction-listing detectors report, run-time-value comparisons, and governed comparisons whose both outcomes continue at the "
    "next line; one pool in three holds a program with 1024 paths; an outcome that changes when the same case is repeated in the "
    "same process counts as a violation. Non-trivial = history analyses >= 2 distinct "
    "programs with a repetition and some program has >= 2 subroutines or an intcblock; distinct by (pool, history)."
)
ASSUMPTIONS = ["set-valued context fields are compared as sets (sorted); path order and JSON bytes are compared exactly"]

_BASE_CACHE = {}


def fresh_snapshot(src: str, hashseed: int) -> str:
    key = (src, hashseed)
    if key in _BASE_CACHE:
        return _BASE_CACHE[key]
    env = dict(os.environ)
    env["PYTHONHASHSEED"] = str(hashseed)
    env["PYTHONPATH"] = ROOT
    env["PYTHONDONTWRITEBYTECODE"] = "1"
    env.pop("TEALER_ROOT_OUTPUT_DIR", None)
    p = subprocess.run([sys.executable, "-m", "vf.snapshot"], input=src.encode(), stdout=subprocess.PIPE, stderr=subprocess.PIPE, env=env, cwd=ROOT, check=False, timeout=1800)
    if p.returncode != 0:
        raise Violation("fresh-process-failed", f"hash seed {hashseed}: exit {p.returncode}: {p.stderr.decode()[-400:]}\n{src}")
    out = p.stdout.decode()
    if len(_BASE_CACHE) > 64:
        _BASE_CACHE.clear()
    _BASE_CACHE[key] = out
    return out


def multi_run(sources, detectors):
    """one Tealer object holding several contracts, each in its own single-transaction group"""
    from tealer.execution_context.transactions import GroupTransaction, Transaction
    from tealer.teal.parse_functions import construct_function
    from tealer.teal.parse_teal import parse_teal
    from tealer.tealer import Tealer
    from tealer.utils.teal_enums import ContractType

    contracts, groups = {}, []
    with adapter.captured():
        try:
            for k, src in enumerate(sources):
                name = "c"  # same name as in the single run so that the JSON is comparable
                teal = parse_teal(src, name)
                fn = construct_function(teal, ["B0"], name)
                teal.functions = {name: fn}
                contracts[f"{name}{k}"] = teal
                t = Transaction()
                if teal.contract_type == ContractType.LogicSig:
                    t.transacton_id = name
                    t.has_logic_sig = True
                    t.logic_sig = fn
                else:
                    t.application = fn
                g = GroupTransaction()
                g.operation_name = name
                g.transactions = [t]
                groups.append(g)
            tl = Tealer(contracts, groups)
            classes = adapter.detector_classes()
            for n in detectors:
                tl.register_detector(classes[n])
            results = tl.run_detectors()
        finally:
            adapter.clear_caches()
    out = [dict() for _ in sources]
    for det, res in zip(tl.detectors, results):
        if det.NAME in OPT_DETECTOR_NAMES:
            # one output per contract *with a finding*, in contract order: kept as the list of JSON documents
            out[0].setdefault("__opt__", {})[det.NAME] = [json.dumps(o.to_json(), sort_keys=False) for o in res]
            continue
        if len(res) != len(sources):
            raise Violation("multi-run-output-count", f"{det.NAME}: {len(res)} outputs for {len(sources)} contracts")
        for pos, o in enumerate(res):
            out[pos][det.NAME] = {"paths": [[b.entry_instr.line for b in p] for p in o.paths], "json": json.dumps(o.to_json(), sort_keys=False)}
    return out


def decorate(draw, p):
    """stack-neutral instruction pairs the instruction-listing detectors report, at statement boundaries
    (the contexts and paths are compared between runs of the same text, no reference semantics is involved)"""
    pads = [[["I", "txna", ["Accounts", "0"]], ["I", "pop", []]]]
    if p["version"] >= 3:
        pads += [[["I", "txn", ["GroupIndex"]], ["I", "gtxns", ["Fee"]], ["I", "pop", []]],
                 [["I", "int", ["0"]], ["I", "gtxns", ["Fee"]], ["I", "pop", []]],
                 [["I", "pushint", ["1"]], ["I", "gtxns", ["Sender"]], ["I", "pop", []]]]
    # an address field compared with a value only known at run time (the tool's placeholder heuristic);
    # assembler-valid, consumed by assert so that the analyses look at the comparison
    cmps = []
    srcs = [["I", "load", ["3"]], ["I", "txna", ["Accounts", "1"]], ["I", "gtxn", ["1", "Sender"]]]
    if p["version"] >= 3:
        srcs.append(["I", "global", ["CreatorAddress"]])
    if p["version"] >= 8:
        srcs += [["I", "frame_dig", ["-1"]]] * 2
    for src in srcs:
        for fld in ("Sender", "RekeyTo", "CloseRemainderTo"):
            cmps.append([src, ["I", "txn", [fld]], ["I", "==", []], ["I", "assert", []]])
    # one theme per program: the same listed pair in several blocks (so that one detector has several
    # findings whose order is observable), or run-time-value comparisons
    # a comparison of a governed field whose both outcomes continue at the same place (`c; bz next; next:`): no
    # effect on the program, but the analyses evaluate the comparison for an edge that carries both outcomes
    samefall = []
    for rd, cs in ((["I", "txn", ["TypeEnum"]], ["pay", "axfer", "appl", "1"]), (["I", "txn", ["OnCompletion"]], ["NoOp", "UpdateApplication", "5"]),
                   (["I", "global", ["GroupSize"]], ["1", "2"]), (["I", "txn", ["Fee"]], ["1000"])):
        for c_ in cs:
            samefall.append([rd, ["I", "int", [c_]]])
    nfall = [0]
    listing = draw(st.integers(0, 4)) < 3
    primary = draw(st.sampled_from(pads))
    items = []
    n = 0
    for it in p["items"]:
        if it[0] == "I" and len(it) > 3 and it[3].get("s") and n < 8 and draw(st.integers(0, 1)) == 0:
            if draw(st.integers(0, 3)) == 0 and nfall[0] < 3:
                a_, b_ = draw(st.sampled_from(samefall))
                lab = f"dz{nfall[0]}_{n}"
                nfall[0] += 1
                pad = ([a_, b_] if draw(st.booleans()) else [b_, a_]) + [["I", draw(st.sampled_from(["==", "!="])), []], ["I", draw(st.sampled_from(["bz", "bnz"])), [lab]], ["L", lab]]
            elif listing:
                pad = primary if draw(st.integers(0, 2)) else draw(st.sampled_from(pads))
            else:
                pad = draw(st.sampled_from(cmps))
            items += [list(x) for x in pad]
            n += 1
        items.append(it)
    p["items"] = items
    if n:
        p["features"] = sorted(set(p["features"]) | {"instruction_listing_findings"})
    return p


@st.composite
def history_case(draw, disabled=()):
    npool = draw(st.integers(2, 3))
    # two thirds of the pools share a vocabulary: same flavour, same one or two governed fields in every program,
    # so that state kept from one analysis (caches keyed by field / constant) meets the same keys in the next one
    from vf.gen_sem import DETECTOR_FIELDS

    if draw(st.integers(0, 2)):
        m_ = draw(st.sampled_from(["lsig", "app"]))
        foc = draw(st.lists(st.sampled_from(DETECTOR_FIELDS[m_]), min_size=1, max_size=2, unique=True))
        pool = [decorate(draw, draw(semantic_program(profile="modelled", disabled=disabled, max_stmts=8, mode=m_, focus=foc))) for _ in range(npool)]
    else:
        pool = [decorate(draw, draw(semantic_program(profile="modelled", disabled=disabled, max_stmts=8))) for _ in range(npool)]
    if draw(st.sampled_from([0, 0, 1])):
        # one program of the pool has many paths (ten independent two-way branches, nothing validated): whatever the
        # path search keeps across calls - counters, budgets, caches - gets exercised by the contracts analysed after it
        from vf.ir import I, L

        items = []
        for j in range(10):
            items += [I("txn", "FirstValid"), I("int", j), I("=="), I("bz", f"d{j}"), I("int", 0), I("pop"), L(f"d{j}")]
        items += [I("int", 1), I("return")]
        pool[0] = {"version": 6, "items": items, "mode": "lsig", "features": ["many_paths"]}
    ops = []
    for _ in range(draw(st.integers(3, 10))):
        k = draw(st.integers(0, 9))
        i = draw(st.integers(0, npool - 1))
        if k <= 3:
            ops.append(["analyse", i])
        elif k <= 7:
            dets = draw(st.lists(st.sampled_from(ALL_DETECTORS), min_size=1, max_size=12, unique=True))
            ops.append(["detect", i, dets, draw(st.integers(1, 2))])
        elif k == 8 and draw(st.booleans()):
            order = draw(st.lists(st.integers(0, npool - 1), min_size=2, max_size=4))
            dets = draw(st.lists(st.sampled_from(ALL_DETECTORS), min_size=1, max_size=12, unique=True))
            ops.append(["multi", order[0], order, dets])
        elif k == 8 and draw(st.booleans()):
            ops.append(["function", i])
        elif k == 8:
            # two functions of one contract (dispatch paths a, b picked by these numbers) built on one parse
            ops.append(["functions", i, draw(st.integers(0, 200)), draw(st.integers(0, 200)), draw(st.booleans())])
        else:
            ops.append(["printer", i, draw(st.sampled_from(["cfg", "call-graph", "human-summary", "transaction-context"]))])
    return {"pool": [{k: p[k] for k in ("version", "items", "mode", "features")} for p in pool], "ops": ops,
            "seed2": draw(st.integers(1, 4000))}


def check(case):
    texts = [RCFG(p).text for p in case["pool"]]
    base = []
    for t in texts:
        b0 = fresh_snapshot(t, 0)
        b1 = fresh_snapshot(t, case["seed2"])
        if b0 != b1:
            a, b = json.loads(b0), json.loads(b1)
            what = [k for k in a if a[k] != b[k]]
            raise Violation("hash-seed-dependence", f"PYTHONHASHSEED=0 and ={case['seed2']} give different output (differs in {what})\n{t}")
        base.append(json.loads(b0))
    for b, t in zip(base, texts):
        if b["contexts"] != b["contexts_after"]:
            raise Violation("detectors-change-contexts", f"contexts differ before/after running the detectors\n{t}")
    analysed = set()
    repetition = False
    for op in case["ops"]:
        i = op[1]
        t = texts[i]
        if op[0] == "analyse":
            snap = snapshot_source(t, detectors=[])
            if json.loads(json.dumps(snap["contexts"])) != base[i]["contexts"]:
                raise Violation("history-changes-contexts", f"after history {case['ops']}: contexts of program {i} differ from its fresh-process baseline\n{t}")
        elif op[0] == "detect":
            snap = snapshot_source(t, detectors=op[2], repeat=op[3])
            snap = json.loads(json.dumps(snap))
            if snap["contexts"] != base[i]["contexts"] or snap["contexts_after"] != base[i]["contexts"]:
                raise Violation("history-changes-contexts", f"after history {case['ops']}: contexts of program {i} differ from baseline (before or after detectors {op[2]})\n{t}")
            for n in op[2]:
                if snap["detectors"][n]["paths"] != base[i]["detectors"][n]["paths"]:
                    raise Violation("order-changes-paths", f"{n} with detectors {op[2]} x{op[3]}: paths {snap['detectors'][n]['paths']} != baseline {base[i]['detectors'][n]['paths']}\n{t}")
                if snap["detectors"][n]["json"] != base[i]["detectors"][n]["json"]:
                    raise Violation("order-changes-json", f"{n}: JSON differs from baseline\n{t}")
        elif op[0] == "multi":
            # several contracts analysed by one Tealer object (as a group configuration does): the results for
            # each contract must not depend on the contracts that come before it in the same run
            got = multi_run([texts[j] for j in op[2]], op[3])
            for n in op[3]:
                if n in OPT_DETECTOR_NAMES:
                    want = [x for j in op[2] for x in [json.dumps(d, sort_keys=False) for d in json.loads(base[j]["detectors"][n]["json"])]]
                    if got[0].get("__opt__", {}).get(n) != want:
                        raise Violation("other-contracts-change-json", f"{n}: programs {op[2]} analysed in one run: outputs differ from the single runs\n" + "\n---\n".join(texts[x] for x in op[2]))
            for pos, j in enumerate(op[2]):
                for n in [x for x in op[3] if x not in OPT_DETECTOR_NAMES]:
                    if got[pos][n]["paths"] != base[j]["detectors"][n]["paths"]:
                        raise Violation("other-contracts-change-paths", f"{n}: program {j} analysed in one run with programs {op[2]} (position {pos}): paths {got[pos][n]['paths']} != alone {base[j]['detectors'][n]['paths']}\n" + "\n---\n".join(texts[x] for x in op[2]))
                    if got[pos][n]["json"] != base[j]["detectors"][n]["json"]:
                        raise Violation("other-contracts-change-json", f"{n}: program {j} in a run with {op[2]}: JSON differs from the single run\n{texts[j]}")
            analysed.update(op[2])
        elif op[0] == "function":
            from tealer.teal.parse_functions import construct_function

            tl = adapter.init_single(t)
            teal, fn = adapter.single_function(tl)
            with adapter.captured():
                fn2 = construct_function(teal, ["B0"], "again")
            adapter.clear_caches()
            c1 = json.loads(json.dumps({str(k): v for k, v in adapter.function_contexts(fn, deep=True).items()}))
            c2 = json.loads(json.dumps({str(k): v for k, v in adapter.function_contexts(fn2, deep=True).items()}))
            if c1 != base[i]["contexts"] or c2 != base[i]["contexts"]:
                raise Violation("function-rebuild-changes-contexts", f"program {i}: building the function twice gives contexts that differ from baseline\n{t}")
        elif op[0] == "functions":
            # the contexts of a function must not depend on which other function of the same contract was built
            # before or after it (subroutine blocks are shared between the functions of a contract)
            from vf.props.c12 import build, fn_contexts, main_paths, in_cycle

            g = RCFG(case["pool"][i])
            paths = [pth for pth in main_paths(g) if not any(in_cycle(g, l) for l in pth[:-1])] or [[g.seq[0].line]]
            longer = [pth for pth in paths if len(pth) >= 2] or paths
            pa, pb = longer[op[2] % len(longer)], paths[op[3] % len(paths)]
            teal = adapter.parse(t)
            idx_of = {b.entry_instr.line: b.idx for b in teal.bbs}
            ia, ib = [idx_of[l] for l in pa], [idx_of[l] for l in pb]
            if op[4]:
                fa = build(teal, ia, "fa")
                build(teal, ib, "fb")
            else:
                build(teal, ib, "fb")
                fa = build(teal, ia, "fa")
                build(teal, ib, "fb2")
            alone = build(adapter.parse(t), ia, "fa")
            if fn_contexts(fa) != fn_contexts(alone):
                raise Violation("other-function-changes-contexts", f"program {i}: function for path {pa} built {'before' if op[4] else 'between two builds of'} the function for path {pb} on the same parse has other contexts than built alone\n{t}")
        elif op[0] == "printer":
            from vf import cli

            cli.run_cli(["print", op[2], "--contracts", "{file}"], t, f"h{os.getpid()}")
        if i in analysed:
            repetition = True
        analysed.add(i)
    nt = len(analysed) >= 2 and repetition and any(
        sum(1 for it in p["items"] if it[0] == "L" and it[1].startswith("sub") and "_" not in it[1]) >= 2 or "intcblock" in p.get("features", [])
        for p in case["pool"])
    return {"nontrivial": nt, "key": case_hash([texts, case["ops"]]), "features": [op[0] for op in case["ops"]],
            "counters": {"fresh_process_snapshots": 2 * len(texts), "operations": len(case["ops"])}}


def components(tier, disabled):
    q = tier == "quick"
    return {
        "history": {"strategy": history_case(disabled), "check": check, "examples": 160 if q else 3000, "min_per_shard": 5, "flaky_is_violation": True,
                    "sample": lambda c, i: {"ops": c["ops"], "programs": [RCFG(p).text for p in c["pool"]]}},
    }
