"""C13 - group-configuration verdicts follow the group semantics."""
from __future__ import annotations

import os
import shutil
import tempfile

from hypothesis import strategies as st

from vf import adapter, env as vfenv, ravm
from vf.core import Violation, case_hash
from vf.gen_sem import semantic_program
from vf.props.detectors_ref import DANGER
from vf.rcfg import RCFG

RULE = (
    "single: one configured transaction running one G2 direct-check contract (logic-sig or application); the "
    "group verdict of each of the eight field detectors must equal the single-contract verdict (some path / "
    "none). group: 1-3 configured transactions at drawn positions, each with 0-1 logic-sig and 0-1 application "
    "(small G2 contracts reading their own fields and other members through gtxn <abs> / relative offsets), "
    "configuration = types, a drawn subset of the absolute indices and of the pairwise offsets (consistent "
    "with the positions), written as YAML + .teal files. R-AVM group semantics: a joint lazy valuation search "
    "looks for a concrete group (configured members at their positions, attacker-chosen fillers, size <= 16) on "
    "which every configured contract accepts while an eligible transaction carries the detector's dangerous "
    "value; a witness obliges the detector to list that transaction. Clearing: if the literal reading (R-LIT) of "
    "its own contract, or of a member's contract that reads it through the configured absolute index / offset, "
    "admits the dangerous value on no accepting walk, the transaction must not be listed. Non-trivial = >= 2 members with a "
    "cross-member read, or an offset other than +-1, or an absolute index other than 0; distinct by config."
)
ASSUMPTIONS = ["R-AVM is the reference for single contracts and for groups; only well-formed transactions are witnesses"]
FIELD_DETECTORS = [d for d in DANGER if d != "group-size-check"]
STATELESS = {"rekey-to", "can-close-account", "can-close-asset", "missing-fee-check"}
TYPE_OF = {"pay": 1, "keyreg": 2, "acfg": 3, "axfer": 4, "afrz": 5, "appl": 6, "txn": None}


def _yaml(cfg: dict) -> str:
    import yaml

    return yaml.safe_dump(cfg, sort_keys=False)


def run_group_detectors(case, texts):
    """write the configuration, run every field detector -> {detector: set(txn ids reported)}"""
    from pathlib import Path

    from tealer.utils.command_line.common import init_tealer_from_config
    from tealer.utils.command_line.group_config import read_config_from_file

    d = tempfile.mkdtemp(prefix="g", dir=vfenv.OUT_ROOT)
    try:
        contracts = []
        for name, c in case["contracts"].items():
            with open(os.path.join(d, f"{name}.teal"), "w", encoding="utf-8") as f:
                f.write(texts[name])
            contracts.append({"name": name, "file_path": f"{name}.teal", "type": "ApprovalProgram" if c["mode"] == "app" else "LogicSig",
                              "version": c["version"], "subroutines": [], "functions": [{"name": "f", "dispatch_path": ["B0"]}]})
        txns = []
        for t in case["txns"]:
            e = {"txn_id": t["id"], "txn_type": t["type"]}
            if t.get("app"):
                e["application"] = {"contract": t["app"], "function": "f"}
            if t.get("lsig"):
                e["logic_sig"] = {"contract": t["lsig"], "function": "f"}
            if t.get("abs_cfg") is not None:
                e["absolute_index"] = t["abs_cfg"]
            if t.get("rel_cfg"):
                e["relative_indexes"] = [{"other_txn_id": o, "offset": k} for o, k in t["rel_cfg"]]
            txns.append(e)
        cfg = {"name": "G", "contracts": contracts, "groups": [{"operation": "op", "transactions": txns}]}
        path = os.path.join(d, "config.yaml")
        with open(path, "w", encoding="utf-8") as f:
            f.write(_yaml(cfg))
        with adapter.captured():
            try:
                tealer = init_tealer_from_config(read_config_from_file(Path(path)))
            except BaseException as e:  # pylint: disable=broad-except
                raise Violation("group-init-crash", f"{type(e).__name__}: {e}\n{_yaml(cfg)}")
            finally:
                adapter.clear_caches()
        classes = adapter.detector_classes()
        out = {}
        with adapter.captured():
            for n in FIELD_DETECTORS:
                tealer.register_detector(classes[n])
            try:
                results = tealer.run_detectors()
            except BaseException as e:  # pylint: disable=broad-except
                raise Violation("group-detect-crash", f"{type(e).__name__}: {e}\n{_yaml(cfg)}")
            finally:
                adapter.clear_caches()
        for det, res in zip(tealer.detectors, results):
            ids = set()
            for o in res:
                for txn in o.transactions:
                    ids.add(txn.transacton_id)
            out[det.NAME] = ids
        return out, _yaml(cfg)
    finally:
        shutil.rmtree(d, ignore_errors=True)


# ------------------------------------------------------------------ joint group search
def group_search(case, graphs, preset, cap=300):
    """-> witness valuation (members, size) on which every configured contract accepts, or None"""
    positions = {t["id"]: t["pos"] for t in case["txns"]}
    runs = []  # (graph, mode, position)
    base_members = {}
    for t in case["txns"]:
        m = base_members.setdefault(t["pos"], {})
        ty = TYPE_OF[t["type"]]
        if ty is not None:
            m["TypeEnum"] = ty
        if t.get("app"):
            m["TypeEnum"] = 6
            runs.append((graphs[t["app"]], "app", t["pos"]))
        if t.get("lsig"):
            runs.append((graphs[t["lsig"]], "lsig", t["pos"]))
    for pos, fields in preset.items():
        for k, v in fields.items():
            if k in base_members.setdefault(pos, {}) and base_members[pos][k] != v:
                return None, 0
            base_members[pos][k] = v
    own_modes = {}
    for _, mode, pos in runs:
        own_modes.setdefault(pos, set()).add(mode)

    def feasible(members, size):
        if size is not None and not max(positions.values()) < size <= 16:
            return False
        for i, m in members.items():
            if size is not None and i >= size and m:
                return False
            modes = own_modes.get(i, set())
            if not ravm.member_feasible(m, "app" in modes, "app" if "app" in modes else "lsig"):
                return False
        return True

    if not feasible(base_members, None):
        return None, 0
    doms = {}
    stack = [(base_members, None)]
    nruns = 0
    while stack:
        members, size = stack.pop()
        need = None
        ok = True
        for g, mode, pos in runs:
            if nruns >= cap:
                return None, nruns
            nruns += 1
            e = ravm.Env(mode)
            e.size, e.index = size, pos
            e.members = {k: dict(v) for k, v in members.items()}
            try:
                res = ravm.run(g, e)
            except ravm.Need as nd:
                need = (nd.key, g, e)
                break
            if not res.accepted:
                ok = False
                break
        if need is not None:
            key, g, e = need
            if id(g) not in doms:
                doms[id(g)] = ravm.Domains(g)
            if key == "GroupSize":
                cands = [s for s in doms[id(g)].small if max(positions.values()) < s <= 16] or [16]
                ext = [(members, s) for s in cands]
            else:
                who, field = key
                i = e.index if who == "own" else who
                ext = []
                for v in doms[id(g)].for_key(("own", field), e):
                    m2 = {k: dict(x) for k, x in members.items()}
                    m2.setdefault(i, {})[field] = v
                    if feasible(m2, size):
                        ext.append((m2, size))
            stack.extend(reversed(ext))
            continue
        if ok:
            return (members, size), nruns
    return None, nruns


# ------------------------------------------------------------------ cases
def _strip(p):
    return {k: p[k] for k in ("version", "items", "mode", "features")}


@st.composite
def single_case(draw, disabled=()):
    mode = draw(st.sampled_from(["lsig", "app"]))
    p = _strip(draw(semantic_program(profile="direct", disabled=disabled, mode=mode, max_stmts=8)))
    kind = "app" if mode == "app" else "lsig"
    t = {"id": "T1", "type": "appl" if mode == "app" else "txn", "pos": 0, kind: "C1"}
    return {"contracts": {"C1": p}, "txns": [t]}


@st.composite
def group_case(draw, disabled=()):
    n = draw(st.integers(1, 3))
    positions = draw(st.lists(st.integers(0, 3), min_size=n, max_size=n, unique=True))
    contracts = {}
    txns = []
    fields = ["RekeyTo", "CloseRemainderTo", "Fee", "TypeEnum", "Sender", "GroupIndex", "AssetCloseTo"]
    for j in range(n):
        t = {"id": f"T{j + 1}", "pos": positions[j]}
        has_app = draw(st.integers(0, 2)) == 0
        has_lsig = draw(st.booleans()) or not has_app
        if has_app:
            nm = f"A{j + 1}"
            contracts[nm] = _strip(draw(semantic_program(profile="direct+group", disabled=disabled, mode="app", max_stmts=5,
                                                         focus=["OnCompletion", "Sender", "RekeyTo", "Fee", "GroupIndex"])))
            t["app"] = nm
        if has_lsig:
            nm = f"L{j + 1}"
            contracts[nm] = _strip(draw(semantic_program(profile="direct+group", disabled=disabled, mode="lsig", max_stmts=5, focus=fields)))
            t["lsig"] = nm
        t["type"] = "appl" if has_app else draw(st.sampled_from(["txn", "txn", "pay", "axfer"]))
        if draw(st.booleans()):
            t["abs_cfg"] = positions[j]
        txns.append(t)
    for a in txns:
        rel = []
        for b in txns:
            if a is not b and draw(st.integers(0, 2)) == 0:
                rel.append([b["id"], b["pos"] - a["pos"]])
        if rel:
            a["rel_cfg"] = rel
    # guard pattern: a member's logic-sig validates a field of another member through the configured
    # absolute index or offset (the situation in which the tool clears the other member)
    if n >= 2 and draw(st.integers(0, 2)) > 0:
        from vf.ir import I

        ga = draw(st.sampled_from([t for t in txns if t.get("lsig")] or [None]))
        if ga is not None:
            gb = draw(st.sampled_from([t for t in txns if t is not ga]))
            field = draw(st.sampled_from(["RekeyTo", "CloseRemainderTo", "AssetCloseTo", "Fee"]))
            via_abs = draw(st.booleans())
            const = ["int", 1000, "1000", "int"] if field == "Fee" else ["addr", "ZERO", "global"]
            op = "<=" if field == "Fee" else "=="
            if via_abs:
                how_ = draw(st.sampled_from(["gtxn", "int", "pushint"]))
                if how_ == "gtxn" or contracts[ga["lsig"]]["version"] < 3:
                    rd = ["read", {"kind": "gtxn", "field": field, "idx": gb["pos"]}]
                    head = [I("gtxn", gb["pos"], field)]
                else:
                    # the same absolute read spelled with the index on the stack
                    rd = ["read", {"kind": "gtxns", "field": field, "idx": gb["pos"]}]
                    head = [I(how_, gb["pos"]), I("gtxns", field)]
                gb["abs_cfg"] = gb["pos"]
            else:
                off = gb["pos"] - ga["pos"]
                rd = ["read", {"kind": "rel", "field": field, "off": abs(off), "sign": "+" if off > 0 else "-", "order": 0}]
                head = [I("txn", "GroupIndex"), I("int", abs(off)), I("+" if off > 0 else "-"), I("gtxns", field)]
                rel = [r for r in ga.get("rel_cfg", []) if r[0] != gb["id"]] + [[gb["id"], off]]
                ga["rel_cfg"] = rel
            cnd = ["cmp", op, rd, const]
            tail = [I("int", 1000)] if field == "Fee" else [I("global", "ZeroAddress")]
            ass = I("assert")
            ass.append({"cond": cnd})
            c = contracts[ga["lsig"]]
            if c["version"] >= 3:
                c["items"] = head + tail + [I(op), ass] + c["items"]
    # a member bounds its OWN fee by a run-time value (`global MinTxnFee`, the tool's heuristic for that transaction)
    # and declares another member through an offset / the other member has an absolute index: the heuristic
    # must not say anything about the other member's fee
    if n >= 2 and draw(st.integers(0, 3)) == 0:
        from vf.ir import I

        ga = draw(st.sampled_from([t for t in txns if t.get("lsig") and contracts[t["lsig"]]["version"] >= 3] or [None]))
        if ga is not None:
            gb = draw(st.sampled_from([t for t in txns if t is not ga]))
            if draw(st.booleans()):
                ga["rel_cfg"] = [r for r in ga.get("rel_cfg", []) if r[0] != gb["id"]] + [[gb["id"], gb["pos"] - ga["pos"]]]
            else:
                gb["abs_cfg"] = gb["pos"]
            cnd = ["cmp", "<=", ["read", {"kind": "txn", "field": "Fee"}], ["glob", "MinTxnFee"]]
            ass = I("assert")
            ass.append({"cond": cnd})
            c = contracts[ga["lsig"]]
            c["items"] = [I("txn", "Fee"), I("global", "MinTxnFee"), I("<="), ass] + c["items"]
            c["features"] = sorted(set(c["features"]) | {"fee_vs_min_txn_fee"})
    return {"contracts": contracts, "txns": txns}


def check_single(case):
    texts = {n: RCFG(c).text for n, c in case["contracts"].items()}
    group_out, cfg = run_group_detectors(case, texts)
    tl = adapter.init_single(texts["C1"])
    res = adapter.run_detectors(tl, FIELD_DETECTORS)
    t = case["txns"][0]
    for det in FIELD_DETECTORS:
        eligible = ("lsig" in t) if det in STATELESS else ("app" in t)
        if det == "can-close-account" and t["type"] not in ("txn", "pay"):
            eligible = False
        if det == "can-close-asset" and t["type"] not in ("txn", "axfer"):
            eligible = False
        if not eligible:
            if group_out[det]:
                raise Violation("ineligible-transaction-reported", f"{det}: {group_out[det]}\n{cfg}\n{texts['C1']}")
            continue
        single = bool(res[det].paths)
        grp = "T1" in group_out[det]
        if single != grp:
            raise Violation("single-vs-group-verdict", f"{det}: single-contract run reports {len(res[det].paths)} path(s), group mode {'lists' if grp else 'clears'} the transaction\n{cfg}\n{texts['C1']}")
    nt = any(it[0] == "I" and it[1] in ("assert", "bz", "bnz") for it in case["contracts"]["C1"]["items"])
    return {"nontrivial": nt, "key": case_hash(texts), "features": [f"mode={case['contracts']['C1']['mode']}"]}


def _lit_excludes(lit, alternatives, rekey):
    """no accepting walk (context-insensitive graph) admits the dangerous value read through `rekey`"""
    for alt in alternatives:
        vals = [{rekey(k): v for k, v in val.items()} for val in alt]
        _, ci = lit.walks(vals if len(vals) > 1 else vals[0])
        if ci:
            return False
    return True


def cleared_by_statement(case, lits, det, t):
    """Is transaction t cleared for detector det by one of the cases the statement lists?
    -> description of the clearing contract, or None"""
    from vf.props.detectors_ref import lit_valuations

    by_id = {x["id"]: x for x in case["txns"]}
    own_contracts = [t.get("lsig"), t.get("app")]
    for c in own_contracts:
        if c is None:
            continue
        alts = lit_valuations(det, lits[c].g)
        if _lit_excludes(lits[c], alts, lambda k: k):
            return f"its own contract {c} excludes the value at every accepting exit"
    for other in case["txns"]:
        for c in (other.get("lsig"), other.get("app")):
            if c is None:
                continue
            alts = lit_valuations(det, lits[c].g)
            if t.get("abs_cfg") is not None:
                i = t["abs_cfg"]
                if _lit_excludes(lits[c], alts, lambda k: ("abs", i, k)):
                    return f"{c} (of {other['id']}) reads it through the configured absolute index {i} and excludes the value"
            for tid, off in other.get("rel_cfg", []):
                if tid == t["id"] and off != 0 and other is not t:
                    if _lit_excludes(lits[c], alts, lambda k: ("rel", off, k)):
                        return f"{c} (of {other['id']}) reads it through the configured offset {off} and excludes the value"
    return None


def check_group(case):
    from vf.rlit import Lit

    texts = {n: RCFG(c).text for n, c in case["contracts"].items()}
    graphs = {n: RCFG(c) for n, c in case["contracts"].items()}
    lits = {n: Lit(graphs[n], case["contracts"][n]["items"]) for n in graphs}
    group_out, cfg = run_group_detectors(case, texts)
    nwit = 0
    ncleared = 0
    for det in FIELD_DETECTORS:
        for t in case["txns"]:
            if t["id"] not in group_out[det]:
                continue
            why = cleared_by_statement(case, lits, det, t)
            if why is not None:
                raise Violation("listed-although-cleared", f"{det}: {t['id']} is listed as vulnerable, but {why}\n{cfg}\n" + "\n".join(f"--- {n}\n{x}" for n, x in texts.items()), {"detector": det})
    for det in FIELD_DETECTORS:
        for t in case["txns"]:
            eligible = ("lsig" in t) if det in STATELESS else ("app" in t)
            if eligible and t["id"] not in group_out[det] and cleared_by_statement(case, lits, det, t) is not None:
                ncleared += 1
    for det in FIELD_DETECTORS:
        d = DANGER[det]
        for t in case["txns"]:
            eligible = ("lsig" in t) if det in STATELESS else ("app" in t)
            if det == "can-close-account" and t["type"] not in ("txn", "pay"):
                eligible = False
            if det == "can-close-asset" and t["type"] not in ("txn", "axfer"):
                eligible = False
            if not eligible:
                continue
            presets = [dict(d.get("own", {}))]
            if "restrict" in d:
                presets = [{"Fee": v} for v in d["restrict"][("own", "Fee")]]
            for preset in presets:
                wit, _ = group_search(case, graphs, {t["pos"]: preset}, cap=240)
                if wit is None:
                    continue
                nwit += 1
                if t["id"] not in group_out[det]:
                    members, size = wit
                    desc = {f"gtxn{i}": {k: (v.decode() if isinstance(v, bytes) else v) for k, v in m.items()} for i, m in sorted(members.items())}
                    raise Violation("group-missed", f"{det}: every configured contract approves the group (size {size}, {desc}) while {t['id']} at position {t['pos']} carries the dangerous value, but {t['id']} is not listed (listed: {sorted(group_out[det])})\n{cfg}\n" + "\n".join(f"--- {n}\n{x}" for n, x in texts.items()), {"detector": det})
                break
    cross = any(it[0] == "I" and it[1] in ("gtxn", "gtxns") for c in case["contracts"].values() for it in c["items"])
    nt = (len(case["txns"]) >= 2 and cross) or any(abs(k) not in (0, 1) for t in case["txns"] for _, k in t.get("rel_cfg", [])) or any(t.get("abs_cfg") not in (None, 0) for t in case["txns"])
    return {"nontrivial": nt and nwit > 0, "key": case_hash([texts, cfg]), "features": [f"members={len(case['txns'])}"],
            "counters": {"witnesses": nwit, "cleared_by_listed_case": ncleared}}


def components(tier, disabled):
    q = tier == "quick"
    return {
        "single": {"strategy": single_case(disabled), "check": check_single, "examples": 500 if q else 25000,
                   "sample": lambda c, i: {n: RCFG(p).text for n, p in c["contracts"].items()}},
        "group": {"strategy": group_case(disabled), "check": check_group, "examples": 400 if q else 20000,
                  "sample": lambda c, i: {"txns": c["txns"], "contracts": {n: RCFG(p).text for n, p in c["contracts"].items()}}},
    }
