"""C18 - exported graphs and reports denote exactly the internal results."""
from __future__ import annotations

import json
import os
import re

from hypothesis import strategies as st

from vf import adapter, cli
from vf.core import Violation, case_hash
from vf.dotparse import DotGraph, decode_ranges
from vf.gen_layout import layout_program
from vf.gen_sem import semantic_program
from vf.props.common_sem import Analysed
from vf.rcfg import RCFG

RULE = (
    "G2 semantic and G1 structured programs run through the command line in-process. cfg DOT: one node per "
    "block with its instructions/line numbers, edge set = global graph of R-CFG (intra edges, callsub -> callee "
    "entry, retsub -> return point, no callsub -> return-point edge). subroutine-cfg: per subroutine its "
    "blocks/edges and exactly one call box per call site wired callsub -> box -> return point. Path DOT k: the "
    "RED-bordered nodes are exactly the blocks of reported path k. transaction-context: GroupIndex/GroupSize "
    "lines decode to the block's context. JSON: count == len(paths), success == (error is null) with and "
    "without a provoked error, --filter-paths removes exactly the paths whose short notation my own re.search "
    "matches (patterns from a small regex grammar over the reported notations). Non-trivial = >= 1 reported "
    "path through a subroutine, or a filter that removes some but not all paths; distinct by (source, filter)."
)
ASSUMPTIONS = ["vf/dotparse.py is an independent reader of the DOT format; R-CFG is the reference graph"]


def _read(path):
    with open(path, encoding="utf-8") as f:
        return f.read()


def _norm(s: str) -> str:
    return " ".join(s.split())


def check_node_rows(g: RCFG, dg: DotGraph, expected_blocks, what):
    """nodes = blocks (by entry line), rows = source lines"""
    by_entry = {}
    for idx, nd in dg.nodes.items():
        if not nd["ins"]:
            raise Violation("dot-empty-node", f"{what}: node {idx} has no instruction rows")
        by_entry[nd["ins"][0][0]] = (idx, nd)
    exp = {g.seq[b[0]].line: b for b in expected_blocks}
    if set(by_entry) != set(exp):
        raise Violation("dot-node-set", f"{what}: nodes for blocks at lines {sorted(by_entry)}, expected {sorted(exp)}")
    src_lines = g.text.splitlines()
    for line, (idx, nd) in by_entry.items():
        want = [(g.seq[i].line, _norm(src_lines[g.seq[i].line - 1])) for i in exp[line]]
        got = [(l, _norm(t)) for l, t, _ in nd["ins"]]
        if got != want:
            raise Violation("dot-node-rows", f"{what}: node {idx} rows {got} != block {want}")
        if nd["port"] != line:
            raise Violation("dot-node-port", f"{what}: node {idx} port {nd['port']} != entry line {line}")
    return by_entry


def global_edges(g: RCFG, blocks):
    """expected edge set (by entry lines) of the full cfg export"""
    first = {g.seq[b[0]].line for b in blocks}
    edges = set()
    for b in blocks:
        last = g.seq[b[-1]]
        src = g.seq[b[0]].line
        if last.op == "callsub":
            callee = g.seq[g.label_at[last.imm[0]]].line
            edges.add((src, callee))
            rp = g.return_point_line(last.line)
            if rp is not None:
                for l in g.subroutine_lines(last.imm[0]):
                    nd = g.by_line[l]
                    if nd.op == "retsub":
                        edges.add((g.seq[g.blocks[g.block_of[nd.idx]][0]].line, rp))
        else:
            for l in g.succ_lines(last.line):
                edges.add((src, l))
    return edges


def check_exports(case, with_paths=True):
    g = RCFG(case)
    feats = list(case.get("features", [])) or g.features()
    name = f"x{os.getpid()}"
    an = Analysed(case)
    blocks = g.blocks
    # several printers in ONE invocation (one parse, one process state) when the case says so
    combo = case.get("combo")
    r_all = None
    if combo:
        r_all = cli.run_cli(["print", ",".join(combo), "--contracts", "{file}"], g.text, name)
        if r_all.exc is not None or r_all.exit_code not in (None, 0):
            raise Violation("printer-failed", f"print {','.join(combo)}: {r_all.exc!r} exit {r_all.exit_code}\n{g.text}")
    # ---- cfg
    r = r_all or cli.run_cli(["print", "cfg", "--contracts", "{file}"], g.text, name)
    if r.exc is not None or r.exit_code not in (None, 0):
        raise Violation("printer-failed", f"cfg: {r.exc!r} exit {r.exit_code}\n{g.text}")
    dg = DotGraph(_read(os.path.join(r.out_dir, "full_cfg.dot")))
    check_node_rows(g, dg, blocks, "cfg")
    got_edges = dg.edge_lines()
    if len(got_edges) != len(set(got_edges)) and False:
        pass
    exp_edges = global_edges(g, blocks)
    if set(got_edges) != exp_edges:
        raise Violation("cfg-edges", f"cfg DOT edges (by block entry line): extra {sorted(set(got_edges) - exp_edges)}, missing {sorted(exp_edges - set(got_edges))}\n{g.text}")
    for a, b, port, _ in dg.edges:
        if port != dg.entry_line(b):
            raise Violation("cfg-edge-port", f"edge {a}->{b} enters at port {port}, entry line is {dg.entry_line(b)}")
    # ---- subroutine-cfg
    r = r_all or cli.run_cli(["print", "subroutine-cfg", "--contracts", "{file}"], g.text, name)
    if r.exc is not None or r.exit_code not in (None, 0):
        raise Violation("printer-failed", f"subroutine-cfg: {r.exc!r} exit {r.exit_code}\n{g.text}")
    d = os.path.join(r.out_dir, "print-subroutine-cfg")
    files = sorted(os.listdir(d))
    want_files = sorted(["contract_shortened_cfg.dot"] + [f"subroutine_{n}_cfg.dot" for n in g.sub_entry])
    if files != want_files:
        raise Violation("subroutine-cfg-files", f"{files} != {want_files}")
    regions = {"contract_shortened_cfg.dot": g.main_lines()}
    for n in g.sub_entry:
        regions[f"subroutine_{n}_cfg.dot"] = g.subroutine_lines(n)
    for fn, lines in regions.items():
        sg = DotGraph(_read(os.path.join(d, fn)))
        rblocks = [b for b in blocks if g.seq[b[0]].line in lines]
        by_entry = check_node_rows(g, sg, rblocks, fn)
        exp = set()
        calls = []
        for b in rblocks:
            last = g.seq[b[-1]]
            if last.op == "callsub":
                calls.append((g.seq[b[0]].line, last.imm[0], g.return_point_line(last.line)))
            else:
                for l in g.succ_lines(last.line):
                    exp.add((g.seq[b[0]].line, l))
        if set(sg.edge_lines()) != exp:
            raise Violation("subroutine-cfg-edges", f"{fn}: extra {sorted(set(sg.edge_lines()) - exp)}, missing {sorted(exp - set(sg.edge_lines()))}\n{g.text}")
        if len(sg.boxes) != len(calls) or len(sg.box_in) != len(calls):
            raise Violation("call-boxes", f"{fn}: {len(sg.boxes)} boxes / {len(sg.box_in)} box edges for {len(calls)} call sites\n{g.text}")
        got_calls = []
        outs = {a: b for a, b, _ in sg.box_out}
        for a, box in sg.box_in:
            rp = outs.get(box)
            got_calls.append((sg.entry_line(a), sg.boxes.get(box), sg.entry_line(rp) if rp is not None else None))
        if sorted(got_calls, key=str) != sorted(calls, key=str):
            raise Violation("call-box-wiring", f"{fn}: boxes {sorted(got_calls, key=str)} != call sites (callsub block, callee, return point) {sorted(calls, key=str)}\n{g.text}")
    # ---- transaction-context annotations
    r = r_all or cli.run_cli(["print", "transaction-context", "--contracts", "{file}"], g.text, name)
    if r.exc is not None or r.exit_code not in (None, 0):
        raise Violation("printer-failed", f"transaction-context: {r.exc!r} exit {r.exit_code}\n{g.text}")
    tg = DotGraph(_read(os.path.join(r.out_dir, "print-transaction-context", "transaction-context.dot")))
    for idx, nd in tg.nodes.items():
        line = nd["ins"][0][0]
        if line not in an.block_by_line:
            continue
        gi = [c for c in nd["comments"] if c.startswith("GroupIndex:")]
        gs = [c for c in nd["comments"] if c.startswith("GroupSize:")]
        if len(gi) != 1 or len(gs) != 1:
            raise Violation("annotation-missing", f"block at line {line}: comments {nd['comments']}")
        ctx = an.ctx(line)
        if decode_ranges(gi[0][len("GroupIndex:"):]) != sorted(ctx.group_indices) or decode_ranges(gs[0][len("GroupSize:"):]) != sorted(ctx.group_sizes):
            raise Violation("annotation-wrong", f"block at line {line}: shows {gi[0]!r} {gs[0]!r}; context indices {sorted(ctx.group_indices)} sizes {sorted(ctx.group_sizes)}")
    # ---- detector output: path DOT files and JSON
    names = list(adapter.DETECTOR_NAMES)
    res = adapter.run_detectors(an.tealer, names)
    r = cli.run_cli(["detect", "--contracts", "{file}", "--detectors", ",".join(names)], g.text, name)
    if r.exc is not None or r.exit_code not in (None, 0):
        raise Violation("detect-failed", f"{r.exc!r} exit {r.exit_code} {r.stdout[-200:]}\n{g.text}")
    through_sub = False
    for n in names:
        for k, path in enumerate(res[n].paths, start=1):
            f = os.path.join(r.out_dir, n, f"{n}-{k}.dot")
            if not os.path.exists(f):
                raise Violation("path-dot-missing", f"{n} path {k}: no file {f}")
            pg = DotGraph(_read(f))
            red = sorted(nd["ins"][0][0] for nd in pg.nodes.values() if nd["color"] == "RED")
            want = sorted({b.entry_instr.line for b in path})
            if red != want:
                raise Violation("path-dot-marks", f"{n} path {k}: RED blocks at lines {red}, path blocks {want}\n{g.text}")
            if any(g.by_line[b.instructions[-1].line].op == "callsub" for b in path):
                through_sub = True
        extra = os.path.join(r.out_dir, n, f"{n}-{len(res[n].paths) + 1}.dot")
        if os.path.exists(extra):
            raise Violation("path-dot-extra", f"{n}: more dot files than paths")
    r = cli.run_cli(["--json", "-", "detect", "--contracts", "{file}", "--detectors", ",".join(names)], g.text, name)
    js = _json_of(r, g)
    if js.get("success") is not True or js.get("error") is not None:
        raise Violation("json-success", f"no error occurred but success={js.get('success')!r} error={js.get('error')!r}")
    by_check = {e["check"]: e for e in js["result"]}
    for n in names:
        e = by_check.get(n)
        if e is None:
            raise Violation("json-detector-missing", n)
        shorts = [" -> ".join(str(b.idx) for b in p) for p in res[n].paths]
        if e["count"] != len(e["paths"]) or [p["short"] for p in e["paths"]] != shorts:
            raise Violation("json-paths", f"{n}: count {e['count']}, shorts {[p['short'] for p in e['paths']]} != {shorts}")
    # provoked error
    r2 = cli.run_cli(["--json", "-", "detect", "--contracts", "{file}", "--detectors", "no-such-detector"], g.text, name)
    js2 = _json_of(r2, g)
    if js2.get("success") is not False or not js2.get("error"):
        raise Violation("json-success", f"an error was provoked but success={js2.get('success')!r} error={js2.get('error')!r}")
    # ---- filter
    all_shorts = sorted({s for n in names for s in (" -> ".join(str(b.idx) for b in p) for p in res[n].paths)})
    partial = False
    pat = case.get("filter")
    if pat is not None and all_shorts:
        pat = _instantiate(pat, all_shorts)
        r3 = cli.run_cli(["--json", "-", "detect", "--contracts", "{file}", "--detectors", ",".join(names), "--filter-paths", pat], g.text, name)
        js3 = _json_of(r3, g)
        by3 = {e["check"]: e for e in js3["result"]}
        for n in names:
            shorts = [" -> ".join(str(b.idx) for b in p) for p in res[n].paths]
            want = [s for s in shorts if re.search(pat, s) is None]
            got = [p["short"] for p in by3[n]["paths"]]
            if got != want or by3[n]["count"] != len(want):
                raise Violation("filter-paths", f"{n}: pattern {pat!r}: kept {got}, expected {want} of {shorts}")
            if 0 < len(want) < len(shorts):
                partial = True
    return {"nontrivial": through_sub or partial, "key": case_hash([g.text, case.get("filter")]), "features": feats + (["filter_partial"] if partial else []),
            "counters": {"reported_paths": sum(len(res[n].paths) for n in names)}}


def _json_of(r, g):
    if r.exc is not None:
        raise Violation("detect-failed", f"{r.exc!r}\n{g.text}")
    start = r.stdout.find("{")
    try:
        return json.loads(r.stdout[start:])
    except Exception as e:  # pylint: disable=broad-except
        raise Violation("json-unparseable", f"{e}: {r.stdout[:300]!r}")


def _instantiate(pat, shorts):
    """pattern template -> concrete regex over the reported notations"""
    kind, k = pat
    s = shorts[k % len(shorts)]
    parts = s.split(" -> ")
    if kind == "exact":
        return "^" + re.escape(s) + "$"
    if kind == "prefix":
        return "^" + re.escape(" -> ".join(parts[: max(1, len(parts) // 2)]))
    if kind == "suffix":
        return re.escape(parts[-1]) + "$"
    if kind == "sub":
        return re.escape(" -> ".join(parts[len(parts) // 3: len(parts) // 3 + 2]))
    if kind == "alt":
        t = shorts[(k + 1) % len(shorts)]
        return "^(" + re.escape(s) + "|" + re.escape(t) + ")$"
    if kind == "trail":
        # white space at the edge of the pattern is significant: "-> 4 " = block 4 followed by another block
        return "-> " + parts[-1] + " "
    if kind == "lead":
        # " 0" = a block id 0 that is not the first block of the path
        return " " + parts[(k // 3) % len(parts)]
    if kind == "digits":
        return r"^\d+ -> \d+$"
    if kind == "none":
        return "^no such path$"
    return r"\d"


filters = st.one_of(st.none(), st.tuples(st.sampled_from(["exact", "prefix", "suffix", "sub", "alt", "digits", "none", "all", "trail", "lead"]), st.integers(0, 20)))


@st.composite
def export_case(draw, disabled=()):
    if draw(st.integers(0, 3)) == 0:
        p = draw(layout_program(structured=True, max_subs=3, max_slots=6))
    elif draw(st.integers(0, 2)) == 0:
        # programs that only check their position / the group size: varied GroupIndex / GroupSize sets
        # (gaps, runs) for the block annotations
        p = draw(semantic_program(profile="direct", disabled=disabled, max_stmts=8, focus=["GroupIndex", "GroupSize"]))
    else:
        p = draw(semantic_program(profile="modelled", disabled=disabled, max_stmts=8))
    p = {k: p[k] for k in p if k in ("version", "items", "mode", "features", "structured")}
    p["filter"] = draw(filters)
    if draw(st.booleans()):
        p["combo"] = list(draw(st.permutations(["cfg", "subroutine-cfg", "transaction-context"])))
    return p


def components(tier, disabled):
    q = tier == "quick"
    return {
        "exports": {"strategy": export_case(disabled), "check": check_exports, "examples": 500 if q else 25000, "min_per_shard": 10,
                    "sample": lambda c, i: {"filter": c.get("filter"), "source": RCFG(c).text}},
    }
