"""C08 - per-block address-field information admits every approvable address."""
from __future__ import annotations

from vf import ravm
from vf.core import Violation, case_hash
from vf.gen_sem import semantic_program
from vf.props.common_sem import Analysed, accepted_executions
from vf.rcfg import RCFG
from vf.rlit import Lit, FRESH

RULE = (
    "sound: G2 modelled programs comparing RekeyTo/CloseRemainderTo/AssetCloseTo/Sender with addr literals, "
    "global ZeroAddress and global CreatorAddress (either order, ==/!=, under &&/||/!, joins, subroutines); "
    "for every accepted R-AVM execution (address representatives: zero, each literal, creator, a fresh "
    "attacker address; a field the execution never reads counts as the fresh address when a well-formed "
    "transaction can carry it) and every block on its trace the block's information for the field says 'any "
    "address' or lists the address. converse: direct-check programs, plus connectives whose other operands were "
    "computed in another block (value-returning subroutine, value pushed before a label: opaque for the literal "
    "reading); if R-LIT finds no accepting path through "
    "a block that admits the fresh address, the block must not say 'any address'. Non-trivial = >= 2 address "
    "comparisons under a connective or merged at a join; distinct by source."
)
ASSUMPTIONS = ["R-AVM / R-LIT are the references; only well-formed transactions are used as witnesses"]
ATTR = {"RekeyTo": "rekeyto", "CloseRemainderTo": "closeto", "AssetCloseTo": "assetcloseto", "Sender": "sender"}


def _name(a: bytes) -> str:
    return "CREATOR_ADDRESS" if a == ravm.CREATOR else a.decode()


def _nt(case):
    f = set(case.get("features", []))
    return bool({"and", "or", "not"} & f) or sum(1 for it in case["items"] if it[0] == "I" and it[1] in ("==", "!=")) >= 2


def check_sound(case):
    an = Analysed(case)
    g = an.g
    nacc = 0
    for env, res in accepted_executions(an, cap=case.get("cap", 400)):
        nacc += 1
        own = env.own_fields()
        for field, attr in ATTR.items():
            if field in own:
                a = own[field]
            else:
                probe = dict(own)
                probe[field] = ravm.ATTACKER
                if not ravm.member_feasible(probe, True, env.mode):
                    continue
                a = ravm.ATTACKER
            if a == ravm.ZERO:
                continue
            for line in set(an.trace_block_lines(res.trace)):
                v = getattr(an.ctx(line), attr)
                if not (v.any_addr or _name(a) in v.possible_addr):
                    raise Violation("address-not-admitted", f"block at line {line}: accepted execution with {field}={_name(a)} ({env.describe()}) but {attr}: any={v.any_addr} no={v.no_addr} possible={v.possible_addr}\n{g.text}")
    return {"nontrivial": _nt(case) and nacc > 0, "key": case_hash(g.text), "features": case.get("features", []),
            "counters": {"accepted_executions": nacc}}


def check_converse(case):
    an = Analysed(case)
    g = an.g
    lit = Lit(g, case["items"])
    used = lit.block_fields()
    for field, attr in ATTR.items():
        if field not in used:
            continue
        _, ci = lit.walks({field: FRESH})
        for bi, line in enumerate(lit.first_line):
            if line not in an.block_by_line:
                continue
            v = getattr(an.ctx(line), attr)
            if v.any_addr and bi not in ci:
                raise Violation("any-address-despite-check", f"block at line {line}: every accepting path through it compares {field} with the zero address or a literal, yet {attr}.any_addr is True\n{g.text}")
    return {"nontrivial": _nt(case), "key": case_hash(g.text), "features": case.get("features", [])}


def components(tier, disabled):
    q = tier == "quick"
    return {
        "sound": {"strategy": semantic_program(profile="modelled", disabled=disabled, max_stmts=(12 if q else 18), focus=list(ATTR) + ["TypeEnum"]),
                  "check": check_sound, "examples": 1600 if q else 80000, "sample": lambda c, i: RCFG(c).text},
        "converse": {"strategy": semantic_program(profile="direct", disabled=disabled, max_stmts=(12 if q else 18), focus=list(ATTR), xflag=True),
                     "check": check_converse, "examples": 1600 if q else 80000, "sample": lambda c, i: RCFG(c).text},
    }
