"""C07 - transaction-kind sets keep every approvable detector-relevant kind."""
from __future__ import annotations

from vf import ravm
from vf.core import Violation, case_hash
from vf.gen_sem import semantic_program
from vf.props.common_sem import Analysed, accepted_executions
from vf.rcfg import RCFG

RULE = (
    "G2 modelled programs with checks on TypeEnum / OnCompletion / ApplicationID (named and numeric constants, "
    "both operand orders, ==/!=, bare `txn ApplicationID`, !, &&, ||), logic-sig and application flavour. For "
    "every accepted R-AVM execution and every block on its trace: governed transaction pay => Pay listed, axfer "
    "=> Axfer, application call with OnCompletion UpdateApplication/DeleteApplication => that kind listed. A "
    "field the execution never reads counts for every value a well-formed transaction can carry. Only these "
    "four kinds are asserted. Non-trivial = the program checks >= 2 of the three dimensions, or one dimension "
    "on the false branch / under !=; distinct by source."
)
ASSUMPTIONS = ["R-AVM is the reference; only well-formed transactions are witnesses (e.g. OnCompletion != 0 only on appl)"]
KINDS = [
    ("Pay", {"TypeEnum": 1}),
    ("Axfer", {"TypeEnum": 4}),
    ("ApplUpdateApplication", {"TypeEnum": 6, "OnCompletion": 4, "ApplicationID": 77}),
    ("ApplDeleteApplication", {"TypeEnum": 6, "OnCompletion": 5, "ApplicationID": 77}),
]


def _dims(case):
    d = set()
    for it in case["items"]:
        if it[0] == "I" and it[1] in ("txn", "gtxn", "gtxns"):
            f = it[2][-1]
            if f in ("TypeEnum", "OnCompletion", "ApplicationID"):
                d.add(f)
    return d


def check(case):
    an = Analysed(case)
    g = an.g
    nacc = 0
    nwit = 0
    for env, res in accepted_executions(an, cap=case.get("cap", 500)):
        nacc += 1
        own = env.own_fields()
        for kind, req in KINDS:
            # is the execution compatible with the governed transaction being of this kind?
            if any(k in own and own[k] != v for k, v in req.items() if k != "ApplicationID"):
                continue
            if "ApplicationID" in req and own.get("ApplicationID", 77) == 0:
                continue
            probe = dict(own)
            for k, v in req.items():
                probe.setdefault(k, v)
            if not ravm.member_feasible(probe, True, env.mode):
                continue
            nwit += 1
            for line in set(an.trace_block_lines(res.trace)):
                types = [str(t) for t in an.ctx(line).transaction_types]
                if kind not in types:
                    raise Violation("kind-dropped", f"block at line {line}: accepted execution whose governed transaction can be {kind} ({env.describe()}) but transaction_types={sorted(types)}\n{g.text}")
    dims = _dims(case)
    feats = set(case.get("features", []))
    nt = (len(dims) >= 2 or "not" in feats or any(it[0] == "I" and it[1] == "!=" for it in case["items"])) and nwit > 0
    return {"nontrivial": nt, "key": case_hash(g.text), "features": case.get("features", []) + [f"dims={len(dims)}"],
            "counters": {"accepted_executions": nacc, "kind_witnesses": nwit}}


def components(tier, disabled):
    q = tier == "quick"
    return {
        "lsig": {"strategy": semantic_program(profile="modelled", disabled=disabled, max_stmts=(12 if q else 18), focus=["TypeEnum", "OnCompletion", "ApplicationID", "RekeyTo"], mode="lsig"),
                 "check": check, "examples": 1600 if q else 80000, "sample": lambda c, i: RCFG(c).text},
        "app": {"strategy": semantic_program(profile="modelled", disabled=disabled, max_stmts=(12 if q else 18), focus=["OnCompletion", "ApplicationID", "TypeEnum", "Sender"], mode="app"),
                "check": check, "examples": 1600 if q else 80000, "sample": lambda c, i: RCFG(c).text},
    }
