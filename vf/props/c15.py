"""C15 - verdicts are invariant under meaning-preserving rewrites of the source."""
from __future__ import annotations

import copy

from hypothesis import strategies as st

from vf import adapter, rops
from vf.core import Violation, case_hash
from vf.gen_sem import Cfg, finalize_mode, lower_program, semantic_program
from vf.linegram import spell_int
from vf.props.common_sem import Analysed
from vf.props.detectors_ref import DANGER
from vf.ravm import parse_int_tok
from vf.rcfg import RCFG

RULE = (
    "G2 modelled program p + a drawn composition of rewrites: move subroutine bodies (before/after main, "
    "reordered), rename labels (incl. names that start with opcode names), comments/blank lines/indentation/"
    "tabs, integer spelling dec<->hex<->octal (int/pushint values, gtxn indices, scratch slots, intc indices, intcblock values, stack depths), named<->numeric TypeEnum/OnCompletion constants, int<->pushint, "
    "entry-block intcblock + intc/intc_k, stack-neutral padding at statement boundaries. Blocks correspond "
    "through IR item identity; for every corresponding block the contexts (incl. the 16 per-index contexts) "
    "must be equal and for every detector the reported paths must map onto each other in the same order. "
    "Non-trivial = >= 2 different rewrite kinds applied and p checks a governed field; distinct by (p, rewrites)."
)
ASSUMPTIONS = ["the rewrites are meaning preserving by construction (stack-neutral padding only at statement boundaries)"]

KINDS = ["move", "rename", "layout", "spelling", "named", "pushint", "intcblock", "padding"]
NAMES_TYPE = {v: k for k, v in rops.TYPE_ENUM_NAMES.items() if k != "unknown"}
NAMES_OC = {v: k for k, v in rops.ON_COMPLETION_NAMES.items()}


def _is_num(tok):
    try:
        parse_int_tok(tok)
        return True
    except ValueError:
        return False


def apply_rewrites(case):
    """-> (original program, rewritten program, orig item index -> new item index, kinds applied)"""
    p = case["prog"]
    rw = case["rewrites"]
    choices = case["choices"]
    orig = {k: copy.deepcopy(v) for k, v in p.items() if k in ("version", "items", "mode", "features", "structured")}
    applied = []
    # ---- move subroutine bodies: re-lower the AST with another placement
    if "move" in rw and p["ast"]["subs"]:
        ast = copy.deepcopy(p["ast"])
        ast["subs_first"] = not ast.get("subs_first")
        names = list(ast["subs"])
        if choices[0] % 2 and len(names) > 1:
            names = names[::-1]
        ast["subs"] = {n: ast["subs"][n] for n in names}
        if ast["subs_first"] is False:
            ast["end"] = 0
        new = lower_program(ast, Cfg(p["profile"], p["cfg_off"]))
        finalize_mode(new)
        # correspondence: same multiset of items per region; match by the k-th occurrence of equal item text
        # inside each region (regions are lowered from the same AST, so the sequences are identical)
        def regions(prog):
            out, cur, name = {}, [], "__main__"
            for i, it in enumerate(prog["items"]):
                out.setdefault(name, [])
            return out
        mapping = _region_map(orig["items"], new["items"], list(p["ast"]["subs"]))
        if mapping is not None:
            applied.append("move")
        else:
            new = copy.deepcopy(orig)
            mapping = {i: i for i in range(len(orig["items"]))}
    else:
        new = copy.deepcopy(orig)
        mapping = {i: i for i in range(len(orig["items"]))}
    items = new["items"]
    ver = new["version"]
    # ---- named <-> numeric for constants compared with TypeEnum / OnCompletion
    if "named" in rw:
        for i, it in enumerate(items):
            if it[0] != "I" or it[1] not in ("int",):
                continue
            neigh = [items[j] for j in (i - 1, i + 1) if 0 <= j < len(items)]
            fld = None
            for nb in neigh:
                if nb[0] == "I" and nb[1] in ("txn", "gtxn") and nb[2][-1] in ("TypeEnum", "OnCompletion"):
                    fld = nb[2][-1]
            if fld is None:
                continue
            try:
                v = parse_int_tok(it[2][0])
            except ValueError:
                continue
            table = NAMES_TYPE if fld == "TypeEnum" else NAMES_OC
            if v in table:
                it[2] = [str(v)] if not _is_plain_number(it[2][0]) else [table[v]]
                applied.append("named")
    # ---- spelling
    if "spelling" in rw:
        for i, it in enumerate(items):
            if it[0] == "I" and it[1] in ("int", "pushint") and _is_plain_number(it[2][0]):
                v = parse_int_tok(it[2][0])
                it[2] = [spell_int(v, (choices[1] + i) % 3)]
                applied.append("spelling")
            elif it[0] == "I" and it[1] in ("gtxn", "gtxna", "load", "store", "intc", "dig", "cover", "uncover") and it[2] and _is_plain_number(str(it[2][0])):
                # the other numeric immediates (group index of gtxn, scratch slot, constant index, stack depth)
                it[2] = [spell_int(parse_int_tok(str(it[2][0])), (choices[1] + i) % 3)] + list(it[2][1:])
                applied.append("spelling")
            elif it[0] == "I" and it[1] == "intcblock":
                it[2] = [spell_int(parse_int_tok(str(x)), (choices[1] + i + k_) % 3) if _is_plain_number(str(x)) else x for k_, x in enumerate(it[2])]
                applied.append("spelling")
    # ---- int <-> pushint
    if "pushint" in rw and ver >= 3:
        for i, it in enumerate(items):
            if it[0] == "I" and it[1] in ("int", "pushint") and _is_plain_number(it[2][0]) and (choices[2] + i) % 2:
                it[1] = "pushint" if it[1] == "int" else "int"
                applied.append("pushint")
    # ---- intcblock
    has_block = any(it[0] == "I" and it[1] == "intcblock" for it in items)
    if "intcblock" in rw and not has_block:
        consts = []
        for it in items:
            if it[0] == "I" and it[1] in ("int", "pushint"):
                v = parse_int_tok(it[2][0])
                if v not in consts:
                    consts.append(v)
        if consts:
            for it in items:
                if it[0] == "I" and it[1] in ("int", "pushint"):
                    k = consts.index(parse_int_tok(it[2][0]))
                    if k < 4 and choices[3] % 2:
                        it[1], it[2] = f"intc_{k}", []
                    else:
                        it[1], it[2] = "intc", [str(k)]
            head = [["I", "intcblock", [str(c) for c in consts]]]
            if (choices[3] // 2) % 2:
                # the intcblock need not be the first instruction of the entry block: stack-neutral code may
                # precede it (composition with the padding rewrite)
                head = [["I", "txn", ["Fee"]], ["I", "pop", []]] + head
                applied.append("intcblock_after_padding")
            items[0:0] = head
            mapping = {o: n + len(head) for o, n in mapping.items()}
            applied.append("intcblock")
    # ---- padding at statement boundaries
    if "padding" in rw:
        out = []
        shift = {}
        for i, it in enumerate(items):
            if it[0] == "I" and len(it) > 3 and it[3].get("s") and (choices[4] + i) % 3 == 0:
                pad = [["I", "int", ["0"]], ["I", "pop", []]] if (choices[4] + i) % 2 else [["I", "txn", ["Fee"]], ["I", "pop", []]]
                if it[1].startswith("intc") or has_block or "intcblock" in applied:
                    pad = [["I", "txn", ["Fee"]], ["I", "pop", []]]
                out.extend(pad)
                applied.append("padding")
            shift[i] = len(out)
            out.append(it)
        mapping = {o: shift[n] for o, n in mapping.items()}
        items = out
        new["items"] = items
    # ---- rename labels
    if "rename" in rw:
        pool = ["bnz_", "int1", "b_", "err_x", "return1", "dup2_", "loop", "L0", "txn_", "assert_1", "callsub_", "x", "done", "label_", "pop1", "switch_", "match_", "retsub_"]
        ren = {}
        k = choices[5]
        for it in items:
            if it[0] == "L":
                ren[it[1]] = f"{pool[k % len(pool)]}{k}"
                k += 1
        for it in items:
            if it[0] == "L":
                it[1] = ren[it[1]]
            elif it[0] == "I" and it[1] in ("b", "bz", "bnz", "switch", "match", "callsub"):
                it[2] = [ren.get(x, x) for x in it[2]]
        if ren:
            applied.append("rename")
    # ---- layout decoration
    if "layout" in rw:
        deco = {"head": {"pre": ["// header", ""][: choices[6] % 3]}}
        for i in range(len(items)):
            d = {}
            if (choices[6] + i) % 4 == 0:
                d["pre"] = ["", "// note", "   ", "\t// x"][: (choices[6] + i) % 3 + 1]
            if (choices[6] + i) % 3 == 0:
                d["indent"] = ["  ", "\t", "    "][(choices[6] + i) % 3]
            if (choices[6] + i) % 5 == 0:
                d["comment"] = [" // c", "\t//x y", " // int 5", "//glued", "// int 1"][(choices[6] + i) // 5 % 5]
                if not d["comment"][0].isspace() and items[i][0] == "I" and items[i][1] in ("byte", "pushbytes", "method"):
                    # a comment needs no white space in front of it, except directly after a base64 word
                    d["comment"] = " " + d["comment"]
            if d:
                deco[str(i)] = d
        new["deco"] = deco
        applied.append("layout")
    return orig, new, mapping, sorted(set(applied))


def _is_plain_number(tok):
    return tok[:1].isdigit()


def _region_map(a_items, b_items, sub_names):
    """map item index in a -> index in b when b is another placement of the same regions"""
    def split(items):
        regs = {"__main__": []}
        cur = "__main__"
        glue = set()
        # main region = everything not inside a subroutine body; bodies start at their label and end
        # before the next subroutine label / main_start
        for i, it in enumerate(items):
            if it[0] == "L" and (it[1] in sub_names or it[1] in ("checker", "approve_end") or (it[1].startswith("vs") and it[1][2:3].isdigit())):
                cur = it[1]
                regs[cur] = []
            elif it[0] == "L" and it[1] == "main_start":
                cur = "__main__"
                glue.add(i)
                continue
            elif it[0] == "I" and it[1] == "b" and it[2] == ["main_start"]:
                glue.add(i)
                continue
            regs[cur].append(i)
        return regs
    ra, rb = split(a_items), split(b_items)
    if set(ra) != set(rb):
        return None
    mapping = {}
    for name in ra:
        xa, xb = ra[name], rb[name]
        if len(xa) != len(xb):
            return None
        for i, j in zip(xa, xb):
            ta, tb = a_items[i], b_items[j]
            if ta[0] != tb[0] or (ta[0] == "I" and ta[1] != tb[1]):
                return None
            mapping[i] = j
    return mapping


@st.composite
def rewrite_case(draw, disabled=()):
    # the intcblock stays in the entry block under every rewrite (the property names the entry-block form)
    p = draw(semantic_program(profile="modelled", disabled=tuple(disabled) + ("intcblock_not_in_entry_block",), with_ast=True))
    rw = draw(st.lists(st.sampled_from(KINDS), min_size=1, max_size=5, unique=True))
    choices = [draw(st.integers(0, 50)) for _ in range(7)]
    return {"prog": p, "rewrites": rw, "choices": choices}


def _snapshot(an: Analysed, names):
    ctxs = {}
    for line, b in an.block_by_line.items():
        c = an.function.transaction_context(b)
        d = adapter.ctx_plain(c)
        d["gtxn"] = [adapter.ctx_plain(c.gtxn_context(i)) for i in range(16)]
        ctxs[line] = d
    res = adapter.run_detectors(an.tealer, names)
    paths = {n: [[b.entry_instr.line for b in p] for p in res[n].paths] for n in names}
    return ctxs, paths


def check(case):
    orig, new, mapping, applied = apply_rewrites(case)
    ga, gb = RCFG(orig), RCFG(new)
    try:
        an_a, an_b = Analysed(orig), Analysed(new)
    except Violation as v:
        raise Violation(v.clause, v.detail + f"\nrewrites {applied}")
    names = list(DANGER)
    ctx_a, paths_a = _snapshot(an_a, names)
    ctx_b, paths_b = _snapshot(an_b, names)
    # correspondence through IR item identity: original item o lives in block A(o), its image in block B(o)
    def is_glue(it):
        return (it[0] == "I" and it[1] == "b" and it[2] == ["main_start"]) or (it[0] == "L" and it[1] == "main_start")

    def block_line_of_item(g, item_idx):
        nd = g.by_line[g.line_of[item_idx]]
        if nd.idx not in g.block_of:
            return None
        return g.seq[g.blocks[g.block_of[nd.idx]][0]].line

    where = f"rewrites {applied}\n--- original\n{ga.text}--- rewritten\n{gb.text}"
    checked = set()
    for o, n in mapping.items():
        if is_glue(orig["items"][o]):
            continue
        la, lb = block_line_of_item(ga, o), block_line_of_item(gb, n)
        if (la in ctx_a) != (lb in ctx_b):
            raise Violation("block-lost", f"item {orig['items'][o][:3]}: original block line {la} analysed={la in ctx_a}, rewritten block line {lb} analysed={lb in ctx_b}\n{where}")
        if la not in ctx_a or (la, lb) in checked:
            continue
        checked.add((la, lb))
        ca, cb = ctx_a[la], ctx_b[lb]
        if ca != cb:
            diff = {k: (ca[k], cb[k]) for k in ca if k != "gtxn" and ca[k] != cb[k]}
            if not diff:
                diff = {f"gtxn[{i}]": "differs" for i in range(16) if ca["gtxn"][i] != cb["gtxn"][i]}
            raise Violation("context-changed", f"block at line {la} (rewritten: line {lb}): {diff}\n{where}")
    inv = {n: o for o, n in mapping.items()}

    def items_of_path(g, path_lines, to_orig):
        out = []
        for l in path_lines:
            for i in g.blocks[g.block_of[g.by_line[l].idx]]:
                k = g.seq[i].item_idx
                if k is None:
                    continue
                o = to_orig(k)
                if o is not None and not is_glue(orig["items"][o]):
                    out.append(o)
        return out

    for n in names:
        pa = [items_of_path(ga, p, lambda k: k) for p in paths_a[n]]
        pb = [items_of_path(gb, p, inv.get) for p in paths_b[n]]
        if pa != pb:
            raise Violation("paths-changed", f"{n}: original paths {paths_a[n]}, rewritten reports {paths_b[n]}: not the same sequences of instructions\n{where}")
    nt = len(applied) >= 2 and any(it[0] == "I" and it[1] in ("txn", "gtxn", "global") and it[2][-1] in ("RekeyTo", "CloseRemainderTo", "AssetCloseTo", "Fee", "TypeEnum", "OnCompletion", "ApplicationID", "Sender", "GroupSize", "GroupIndex") for it in orig["items"])
    return {"nontrivial": nt, "key": case_hash([ga.text, gb.text]), "features": [f"rw:{a}" for a in applied]}


def components(tier, disabled):
    q = tier == "quick"
    return {
        "rewrite": {"strategy": rewrite_case(disabled), "check": check, "examples": 1400 if q else 80000,
                    "sample": lambda c, i: {"rewrites": c["rewrites"], "source": RCFG({k: c["prog"][k] for k in ("version", "items")}).text}},
    }
