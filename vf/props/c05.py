"""C05 - subroutine, call-site and return-point structure is faithful."""
from __future__ import annotations

import os
import re

from vf import adapter, env
from vf.core import Violation, case_hash
from vf.gen_layout import layout_program
from vf.rcfg import RCFG

RULE = (
    "G1 structured programs with 0-6 subroutines (nested/shared/recursive calls, calls in loops, dead call "
    "sites, subroutines before/after main). Oracle R-CFG: set of subroutines = callsub-targeted labels; each "
    "subroutine's blocks = instruction-level reachability from its entry without following calls; retsub/exit "
    "blocks; called_subroutine and sub_return_point of every callsub block; caller/return-point tables of "
    "Subroutine and of the Function built for [B0]; call-graph DOT edge set. Non-trivial = >=2 call sites of "
    "one subroutine, a dead call site, or recursion; distinct by rendered source."
)
ASSUMPTIONS = ["R-CFG is the reference", "a callsub that is the very last instruction counts as a program-terminating (exit) block"]
NT = {"shared_subroutine", "dead_callsite", "recursion"}


def _lines(blocks):
    return sorted(b.entry_instr.line for b in blocks)


def check(case):
    g = RCFG(case)
    feats = g.features()
    name = f"c05_{os.getpid()}"
    try:
        teal = adapter.parse(g.text, name)
    except adapter.TealerCrash as e:
        raise Violation("parse-crash", str(e))
    first_of = {b.entry_instr.line: b for b in teal.bbs}
    all_lines_of = lambda blocks: sorted(i.line for b in blocks for i in b.instructions)
    # --- which labels are subroutines
    if set(teal.subroutines) != set(g.sub_entry):
        raise Violation("subroutine-set", f"subroutines {sorted(teal.subroutines)} != callsub targets {sorted(g.sub_entry)}")
    if all_lines_of(teal.main.blocks) != sorted(g.main_lines()):
        raise Violation("main-blocks", f"main lines {all_lines_of(teal.main.blocks)} != {sorted(g.main_lines())}")
    main_exits = sorted(
        b.entry_instr.line for b in teal.main.blocks
        if g.by_line[b.instructions[-1].line].op == "retsub" or not g.succ_lines(b.instructions[-1].line)
    )
    if _lines(teal.main.exit_blocks) != main_exits:
        raise Violation("exit-blocks", f"__main__: exit blocks {_lines(teal.main.exit_blocks)}, expected {main_exits}")
    for nm, sub in teal.subroutines.items():
        if sub.name != nm:
            raise Violation("subroutine-name", f"{nm} vs {sub.name}")
        e_line = g.seq[g.sub_entry[nm]].line
        if sub.entry.entry_instr.line != e_line:
            raise Violation("subroutine-entry", f"{nm}: entry at line {sub.entry.entry_instr.line}, label at {e_line}")
        exp = sorted(g.subroutine_lines(nm))
        if all_lines_of(sub.blocks) != exp:
            raise Violation("subroutine-blocks", f"{nm}: lines {all_lines_of(sub.blocks)} != reachable without following calls {exp}")
        if len(set(map(id, sub.blocks))) != len(sub.blocks):
            raise Violation("subroutine-blocks-dup", f"{nm}: a block is listed twice")
        exp_ret = sorted(b.entry_instr.line for b in sub.blocks if g.by_line[b.instructions[-1].line].op == "retsub")
        if _lines(sub.retsub_blocks) != exp_ret:
            raise Violation("retsub-blocks", f"{nm}: {_lines(sub.retsub_blocks)} != {exp_ret}")
        exp_exit_min = sorted(
            b.entry_instr.line for b in sub.blocks
            if g.by_line[b.instructions[-1].line].op == "retsub"
            or (not g.succ_lines(b.instructions[-1].line) and g.by_line[b.instructions[-1].line].op != "callsub")
        )
        exp_exit_max = sorted(
            b.entry_instr.line for b in sub.blocks
            if g.by_line[b.instructions[-1].line].op == "retsub" or not g.succ_lines(b.instructions[-1].line)
        )
        got_exit = _lines(sub.exit_blocks)
        # exits = retsub blocks and blocks at which the program terminates, incl. a callsub that is the very last
        # instruction (the program ends there once the callee has returned)
        if got_exit != exp_exit_max:
            raise Violation("exit-blocks", f"{nm}: exit blocks {got_exit}, expected {exp_exit_max}")
    # --- call sites
    sites = g.callsites()
    by_target = {}
    for nd in sites:
        by_target.setdefault(nd.imm[0], []).append(nd)
    for b in teal.bbs:
        last = g.by_line[b.instructions[-1].line]
        if last.op != "callsub":
            if b.is_callsub_block:
                raise Violation("is-callsub-block", f"block at {b.entry_instr.line} is not a callsub block")
            continue
        if not b.is_callsub_block or b.called_subroutine is not teal.subroutines[last.imm[0]]:
            raise Violation("called-subroutine", f"callsub at line {last.line} -> {getattr(b.called_subroutine, 'name', None)}")
        rp = g.return_point_line(last.line)
        got = b.sub_return_point
        if (rp is None) != (got is None) or (got is not None and (got.entry_instr.line != rp or first_of.get(rp) is not got)):
            raise Violation("return-point", f"callsub at line {last.line}: return point {got.entry_instr.line if got else None}, expected line {rp}")
    for nm, sub in teal.subroutines.items():
        exp_callers = sorted(g.by_line[nd.line].line for nd in by_target.get(nm, []))
        got_callers = sorted(b.instructions[-1].line for b in sub.caller_blocks)
        if got_callers != exp_callers:
            raise Violation("caller-blocks", f"{nm}: callers at lines {got_callers}, retained call sites at {exp_callers}")
        exp_rps = sorted(r for r in (g.return_point_line(l) for l in exp_callers) if r is not None)
        if _lines(sub.return_point_blocks) != exp_rps:
            raise Violation("return-point-blocks", f"{nm}: {_lines(sub.return_point_blocks)} != {exp_rps}")
    # --- the same tables on the Function built for the whole contract
    from tealer.teal.parse_functions import construct_function

    try:
        with adapter.captured():
            fn = construct_function(teal, ["B0"], "f")
    except BaseException as e:  # pylint: disable=broad-except
        raise Violation("function-crash", f"construct_function raised {type(e).__name__}: {e}")
    finally:
        adapter.clear_caches()
    fn_lines = g.reach_from(g.seq[0].line, follow_calls=True)
    used = {nd.imm[0] for nd in sites if nd.line in fn_lines}
    if set(fn.subroutines) != used:
        raise Violation("function-subroutines", f"{sorted(fn.subroutines)} != subroutines called from the function {sorted(used)}")
    for nm, sub in fn.subroutines.items():
        if sub is not teal.subroutines[nm]:
            raise Violation("function-subroutine-identity", nm)
        exp_callers = sorted(nd.line for nd in by_target.get(nm, []) if nd.line in fn_lines)
        got_callers = sorted(b.instructions[-1].line for b in fn.caller_blocks(sub))
        if got_callers != exp_callers:
            raise Violation("function-caller-blocks", f"{nm}: {got_callers} != {exp_callers}")
        for b in fn.caller_blocks(sub):
            if b not in fn.blocks:
                raise Violation("function-caller-not-in-function", f"{nm}: caller block at {b.entry_instr.line} is not a block of the function")
        exp_rps = sorted(r for r in (g.return_point_line(l) for l in exp_callers) if r is not None)
        if _lines(fn.return_point_blocks(sub)) != exp_rps:
            raise Violation("function-return-point-blocks", f"{nm}: {_lines(fn.return_point_blocks(sub))} != {exp_rps}")
        for b in fn.return_point_blocks(sub):
            if b not in fn.blocks:
                raise Violation("function-return-point-not-in-function", f"{nm}: return point at {b.entry_instr.line}")
    # --- call-graph export
    if case["version"] >= 4:
        from tealer.printers.call_graph import PrinterCallGraph

        with adapter.captured():
            try:
                PrinterCallGraph(teal).print()
            except BaseException as e:  # pylint: disable=broad-except
                raise Violation("call-graph-crash", f"{type(e).__name__}: {e}")
        path = os.path.join(env.out_dir(name), "call-graph.dot")
        with open(path, encoding="utf-8") as f:
            dot = f.read()
        os.remove(path)
        edges = set(re.findall(r"^(\S+) -> (\S+);$", dot, re.M))
        nodes = set(re.findall(r"^(\S+)\[label=", dot, re.M))
        owner = {}
        for nm in g.sub_entry:
            for l in g.subroutine_lines(nm):
                owner[l] = nm
        for l in g.main_lines():
            owner[l] = "__main__"
        exp_edges = {(owner[nd.line], nd.imm[0]) for nd in sites}
        if edges != exp_edges:
            raise Violation("call-graph-edges", f"DOT edges {sorted(edges)} != {sorted(exp_edges)}")
        if nodes != set(g.sub_entry):
            raise Violation("call-graph-nodes", f"DOT nodes {sorted(nodes)} != {sorted(g.sub_entry)}")
    return {"nontrivial": bool(NT & set(feats)), "key": case_hash(g.text), "features": feats + [f"nsubs={len(g.sub_entry)}"]}


def components(tier, disabled):
    q = tier == "quick"
    return {
        "structure": {"strategy": layout_program(structured=True, max_subs=6, max_slots=8, min_version=2), "check": check,
                      "examples": 5000 if q else 300000, "sample": lambda c, i: RCFG(c).text},
    }
