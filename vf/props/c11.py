"""C11 - reconstructed operands equal the operands the AVM would pass."""
from __future__ import annotations

from hypothesis import strategies as st

from vf import adapter, linegram as lg, rops
from vf.core import Violation, case_hash

RULE = (
    "table: every opcode of R-OPS (TEAL v1-v8) x immediate shapes (dig/cover/uncover/bury/popn/dupn n in 0..12 - in the token blocks also dupn/popn excursions several hundred entries deep - spelled decimal, hex and octal, "
    "pushints/pushbytess of 1..6, match/switch with 1..5 labels, proto, frame ops) - tealer's (pop, push) must "
    "equal the AVM's; exhaustive. tokens: straight-line blocks of 1-40 instructions over the whole opcode set "
    "(branch/terminator only last) are executed on a stack of unique tokens by R-OPS (computing opcodes push "
    "fresh tokens, shuffles move/copy tokens, below the block an infinite supply of pre-block tokens); for "
    "every instruction and operand position the producer tealer reconstructs (Known(P, i) / Unknown) must "
    "denote the token the AVM consumes there. equations: compute_equations on &&/|| trees must return exactly "
    "the leaves of the maximal same-operator tree, in order, has_unknown iff a leaf comes from before the "
    "block. Non-trivial = the block has a multi-push or shuffle opcode and a later consumer of a value that "
    "passed through it; distinct by block text."
)
ASSUMPTIONS = ["R-OPS stack effects (vf/rops.py) are the reference (written from the AVM specification)"]

SHUFFLES = {"pop", "dup", "dup2", "swap", "dig", "cover", "uncover", "bury", "popn", "dupn"}
LAST_ONLY = {"err", "return", "retsub", "b", "bz", "bnz", "switch", "match", "callsub"}


def _imm_for(name, draw=None, fixed=None):
    """source tokens + decoded immediates for table enumeration"""
    raise NotImplementedError


def table_cases():
    out = []
    for name, op in rops.OPS.items():
        shapes = [None]
        if name in ("dig", "cover", "uncover", "bury", "popn", "dupn"):
            shapes = list(range(0, 13))
            if name == "bury":
                shapes = list(range(1, 13))
        elif name in ("pushints", "pushbytess", "match", "switch"):
            shapes = list(range(1, 7))
        elif name in ("intcblock", "bytecblock"):
            shapes = list(range(1, 4))
        elif name == "replace":
            shapes = [None, 0, 1, 2, 9]
        sixops = name in ("dig", "cover", "uncover", "bury", "popn", "dupn")
        # the assembler reads the count/depth immediate with base detection: decimal, 0x.. and 0.. (octal)
        for sh, style in [(sh, style) for sh in shapes for style in ((0, 1, 2) if sixops else (0,))]:
            toks, vals = [], []
            for kind in op.imm:
                if kind == "u8opt":
                    if sh is not None:
                        toks.append(str(sh)); vals.append(sh)
                elif kind == "u8":
                    v = sh if sh is not None else 1
                    toks.append(lg.spell_int(v, style)); vals.append(v)
                elif kind == "i8":
                    toks.append("-1"); vals.append(-1)
                elif kind == "u64":
                    toks.append("7"); vals.append(7)
                elif kind in rops.FIELD_FAMILIES:
                    f = sorted(rops.FIELD_FAMILIES[kind])[0]
                    toks.append(f); vals.append(f)
                elif kind == "txnf_any":
                    toks.append("Fee"); vals.append("Fee")
                elif kind == "label":
                    toks.append("l0"); vals.append("l0")
                elif kind == "labels":
                    ls = [f"l{k}" for k in range(sh or 1)]
                    toks += ls; vals.append(ls)
                elif kind == "ints":
                    xs = list(range(sh or 1))
                    toks += [str(x) for x in xs]; vals.append(xs)
                elif kind == "bytes":
                    toks.append("0x01"); vals.append("01")
                elif kind == "bytess":
                    xs = ["0x0%d" % k for k in range(sh or 1)]
                    toks += xs; vals.append([x[2:] for x in xs])
                elif kind == "ecdsa":
                    toks.append("Secp256k1"); vals.append("Secp256k1")
                elif kind == "b64enc":
                    toks.append("StdEncoding"); vals.append("StdEncoding")
                elif kind == "jsont":
                    toks.append("JSONUint64"); vals.append("JSONUint64")
                elif kind == "vrfstd":
                    toks.append("VrfAlgorand"); vals.append("VrfAlgorand")
                elif kind == "blockf":
                    toks.append("BlkSeed"); vals.append("BlkSeed")
                elif kind == "addr":
                    toks.append(lg.ADDRS[1]); vals.append(lg.ADDRS[1])
                elif kind == "method":
                    toks.append('"a()void"'); vals.append("a()void")
                else:
                    raise AssertionError(kind)
            out.append({"text": " ".join([name] + toks), "name": name, "vals": vals})
    return out


def check_table(case, skip=()):
    from tealer.teal.instructions.parse_instruction import parse_line

    with adapter.captured():
        ins = parse_line(case["text"])
    name, vals = case["name"], case["vals"]
    if name in skip:
        return {"nontrivial": False, "key": None, "features": [f"excluded:{name}"], "counters": {"excluded_known_finding": 1}}
    p, q = rops.pops(name, vals), rops.pushes(name, vals)
    tp, tq = ins.stack_pop_size, ins.stack_push_size
    if (tp, tq) != (p, q):
        raise Violation("stack-effect", f"{case['text']!r}: tealer pops {tp} pushes {tq}; the AVM pops {p} pushes {q}")
    return {"nontrivial": rops.OPS[name].kind == "shuffle" or q > 1 or p > 2, "key": case_hash(case["text"]), "features": [rops.OPS[name].kind]}


# ------------------------------------------------------------------ token execution
class RefStack:
    def __init__(self):
        self.items = []
        self.npre = 0

    def ensure(self, n):
        while len(self.items) < n:
            self.npre += 1
            self.items.insert(0, ("pre", self.npre))

    def pop(self, n):
        self.ensure(n)
        if n == 0:
            return []
        out = self.items[-n:]
        del self.items[-n:]
        return out

    def push(self, xs):
        self.items.extend(xs)


def ref_step(st_: RefStack, k: int, name: str, vals):
    """execute instruction k on the token stack (AVM semantics of data movement)"""
    n = vals[0] if vals and isinstance(vals[0], int) else 0
    if name == "pop":
        st_.pop(1)
    elif name == "dup":
        a = st_.pop(1)
        st_.push([a[0], a[0]])
    elif name == "dup2":
        a = st_.pop(2)
        st_.push(a + a)
    elif name == "swap":
        a = st_.pop(2)
        st_.push([a[1], a[0]])
    elif name == "dig":
        st_.ensure(n + 1)
        st_.push([st_.items[-1 - n]])
    elif name == "cover":
        st_.ensure(n + 1)
        v = st_.items.pop()
        st_.items.insert(len(st_.items) - n, v)
    elif name == "uncover":
        st_.ensure(n + 1)
        v = st_.items.pop(len(st_.items) - 1 - n)
        st_.items.append(v)
    elif name == "bury":
        st_.ensure(n + 1)
        v = st_.items.pop()
        st_.items[len(st_.items) - n] = v
    elif name == "popn":
        st_.pop(n)
    elif name == "dupn":
        a = st_.pop(1)
        st_.push([a[0]] * (n + 1))
    else:
        p, q = rops.pops(name, vals), rops.pushes(name, vals)
        st_.pop(p)
        st_.push([("out", k, i) for i in range(q)])


@st.composite
def block_case(draw, exclude=()):
    names = [n for n in lg.OPNAMES if n not in LAST_ONLY and n not in exclude and n not in ("intcblock", "bytecblock", "method")]
    weighted = names + [n for n in names if n in SHUFFLES] * 6 + ["mulw", "addw", "divmodw", "expw", "app_local_get_ex", "dup2", "pushints", "pushbytess", "select", "&&", "||", "==", "!", "int", "txn"] * 3
    n = draw(st.integers(1, 40))
    lines = []
    for _ in range(n):
        nm = draw(st.sampled_from(weighted))
        toks, vals, _ = draw(lg.immediates(nm))
        if nm in ("dig", "cover", "uncover", "popn", "dupn"):
            v = draw(st.integers(0, 12))
            toks, vals = [lg.spell_int(v, draw(st.sampled_from([0, 0, 1, 2])))], [v]
        elif nm == "bury":
            v = draw(st.integers(1, 12))
            toks, vals = [lg.spell_int(v, draw(st.sampled_from([0, 0, 1, 2])))], [v]
        lines.append([nm, toks, vals])
    if draw(st.sampled_from(range(6))) == 0:
        # deep excursion: a few values pushed in the block, then several hundred copies on top of them (dupn with a
        # large count, within the AVM's limit of 1000 entries), removed again - what follows consumes the values
        # that were buried in between
        pos = draw(st.integers(0, len(lines)))
        macro = []
        for _ in range(draw(st.integers(1, 3))):
            toks, vals, _x = draw(lg.immediates("int"))
            macro.append(["int", toks, vals])
        counts = draw(st.lists(st.sampled_from([130, 200, 254, 255]), min_size=1, max_size=3))
        for c_ in counts:
            macro.append(["dupn", [lg.spell_int(c_, draw(st.sampled_from([0, 0, 1, 2])))], [c_]])
        for c_ in counts:
            macro.append(["popn", [lg.spell_int(c_, draw(st.sampled_from([0, 0, 1, 2])))], [c_]])
        lines[pos:pos] = macro
    if draw(st.integers(0, 3)) == 0:
        nm = draw(st.sampled_from(["return", "err", "bnz", "bz", "switch", "match", "b", "callsub", "retsub"]))
        if nm in ("switch", "match"):
            k = draw(st.integers(1, 5))
            ls = [f"end{j}" for j in range(1)] * k
            lines.append([nm, ls, [ls]])
        elif nm in ("bnz", "bz", "b", "callsub"):
            lines.append([nm, ["end0"], ["end0"]])
        else:
            lines.append([nm, [], []])
    return {"lines": lines}


def render_block(case):
    src = ["#pragma version 8"]
    for nm, toks, _ in case["lines"]:
        src.append(" ".join([nm] + list(toks)))
    src.append("end0:")
    src.append("int 1")
    return "\n".join(src) + "\n"


def check_tokens(case):
    from tealer.analyses.utils.stack_ast_builder import construct_stack_ast, KnownStackValue, UnknownStackValue, compute_equations
    from tealer.teal.instructions import instructions as TI

    src = render_block(case)
    try:
        teal = adapter.parse(src)
    except adapter.TealerCrash as e:
        raise Violation("parse-crash", f"{e}\n{src}")
    bb = teal.bbs[0]
    ins_list = [i for i in bb.instructions if i.line >= 2]
    lines = case["lines"]
    if len(ins_list) != len(lines):
        raise Violation("block-shape", f"expected one block of {len(lines)} instructions, got {len(ins_list)}\n{src}")
    ast = construct_stack_ast(bb)
    # reference run in the AVM's own terms: instruction k consumes the top p values and leaves q values
    # ("out", k, 0..q-1); below the block there is an unbounded supply of pre-block values ("pre", depth)
    stack = []
    npre = [0]

    def take(n):
        nonlocal stack
        while len(stack) < n:
            npre[0] += 1
            stack.insert(0, ("pre", npre[0]))
        if n == 0:
            return []
        w = stack[-n:]
        stack = stack[:-n]
        return w

    windows = []
    for k, (nm, toks, vals) in enumerate(lines):
        w = take(rops.pops(nm, vals))
        windows.append(w)
        stack.extend(("out", k, i) for i in range(rops.pushes(nm, vals)))
    index_of = {id(ins): k for k, ins in enumerate(ins_list)}

    def resolve(v):
        if isinstance(v, UnknownStackValue):
            return ("unknown",)
        k = index_of.get(id(v.instruction))
        if k is None:
            return ("foreign", str(v.instruction))
        return ("out", k, v.ins_out_values_index)

    flow_through = False
    for k, ins in enumerate(ins_list):
        nm, toks, vals = lines[k]
        args = ast[ins].args
        want = windows[k]
        if len(args) != len(want):
            raise Violation("arg-count", f"line {ins.line} {ins}: {len(args)} reconstructed operands, the AVM passes {len(want)}\n{src}")
        for pos, a in enumerate(args):
            got = resolve(a)
            w = want[pos]
            if got == ("unknown",):
                if w[0] != "pre":
                    raise Violation("unknown-but-produced-in-block", f"line {ins.line} {ins}: operand {pos} reported unknown, the AVM passes output {w[2]} of line {ins_list[w[1]].line} ({ins_list[w[1]]})\n{src}")
            elif got != w:
                raise Violation("wrong-producer", f"line {ins.line} {ins}: operand {pos} reconstructed as {got}, the AVM passes {w}\n{src}")
            if w[0] == "out" and (lines[w[1]][0] in SHUFFLES or rops.pushes(lines[w[1]][0], lines[w[1]][2]) > 1):
                flow_through = True
    # ---- compute_equations on && / || nodes
    neq = 0
    for k, ins in enumerate(ins_list):
        nm = lines[k][0]
        if nm not in ("&&", "||"):
            continue
        cls = TI.And if nm == "&&" else TI.Or
        root = KnownStackValue(ins, ast[ins].args, 0)

        def flatten(kk):
            out = []
            for t in windows[kk]:
                if t[0] == "out" and lines[t[1]][0] == nm:
                    out.extend(flatten(t[1]))
                else:
                    out.append(t)
            return out

        want = flatten(k)
        try:
            eqs, has_unknown = compute_equations(root, cls)
        except Exception as e:  # pylint: disable=broad-except
            raise Violation("compute-equations-crash", f"{type(e).__name__}: {e}\n{src}")
        got = [resolve(e) for e in eqs]
        if got != [t for t in want if t[0] != "pre"]:
            raise Violation("equations", f"line {ins.line} {nm}: leaves {got}, expected {[t for t in want if t[0] != 'pre']}\n{src}")
        if has_unknown != any(t[0] == "pre" for t in want):
            raise Violation("equations-unknown-flag", f"line {ins.line} {nm}: has_unknown={has_unknown}, leaves {want}\n{src}")
        neq += 1
    adapter.clear_caches()
    return {"nontrivial": flow_through, "key": case_hash(src), "features": [f"len={min(len(lines) // 10, 3)}0+"],
            "counters": {"equation_trees": neq}}


def components(tier, disabled):
    q = tier == "quick"
    skip = tuple(n for n in ("frame_bury",) if f"stack_effect_{n}" in disabled)
    excl = skip
    return {
        "table": {"enumerate": table_cases, "check": lambda c: check_table(c, skip), "exhaustive": True, "shards": 4,
                  "sample": lambda c, i: c["text"]},
        "tokens": {"strategy": block_case(excl), "check": check_tokens, "examples": 12000 if q else 600000,
                   "sample": lambda c, i: render_block(c)},
    }
