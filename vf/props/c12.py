"""C12 - a function cut out by a dispatch path has exactly that path's executions."""
from __future__ import annotations

from hypothesis import strategies as st

from vf import adapter, ravm
from vf.core import Violation, case_hash
from vf.gen_sem import semantic_program
from vf.props import c06, c07, c08, c09, c10  # noqa: F401  (admission predicates)
from vf.props.c10 import admits
from vf.rcfg import RCFG

RULE = (
    "G2 modelled programs x a drawn root-to-block path of the main graph (1-5 blocks, through branches, call "
    "return points and, unless excluded, loop headers) x a second path (another function of the same contract) "
    "built before, after or not at all. Structure: path [B0] => bijection with the contract's main blocks "
    "(ids, instruction text, line numbers, ordered successor lists), shared subroutine objects; longer paths "
    "=> every off-path successor of a path block before the last is a single-instruction error block, on-path "
    "successors untouched. Contexts: for every accepted R-AVM execution whose depth-0 block sequence starts "
    "with the path, the admission predicates of C06-C09 hold at every block of its trace. Independence: the "
    "contexts of the function are identical whether it is built alone, before or after another function, or "
    "twice. Non-interference: a structural snapshot of the contract's own graph is unchanged. Configuration: 2-3 dispatch paths (preferably ending in the same block by different "
    "routes) listed as functions of one contract in a group configuration file: each function's graph and "
    "contexts equal those of the function built alone from a fresh parse. Exactness (direct-"
    "check programs): GroupSize sets of the function lie between the context-sensitive and context-insensitive "
    "literal reading of the contract with the off-path edges removed. Non-trivial = "
    "path length >= 2 and the function shares a subroutine with the other function built; distinct by "
    "(source, path, order)."
)
ASSUMPTIONS = ["R-CFG / R-AVM are the references"]


def main_paths(g: RCFG, max_len=5):
    """all simple root-to-block paths (as lists of block entry lines) of the main graph, up to max_len"""
    main = g.main_lines()
    first = {g.seq[b[0]].line: b for b in g.blocks}
    out = []

    def succs(line):
        b = first[line]
        last = g.seq[b[-1]]
        return [l for l in g.succ_lines(last.line) if l in first]

    def dfs(path):
        out.append(list(path))
        if len(path) >= max_len or len(out) > 200:
            return
        for s in succs(path[-1]):
            if s not in path and s in main:
                dfs(path + [s])

    dfs([g.seq[0].line])
    return out


@st.composite
def dispatch_case(draw, disabled=()):
    p = draw(semantic_program(profile="modelled", disabled=disabled, max_stmts=10, second_intcblock=True))
    p = {k: p[k] for k in ("version", "items", "mode", "features", "structured")}
    g = RCFG(p)
    paths = main_paths(g)
    longer = [x for x in paths if len(x) >= 2]
    pick = lambda: draw(st.sampled_from(longer)) if longer and draw(st.integers(0, 3)) else draw(st.sampled_from(paths))
    p["path"] = pick()
    p["other"] = pick()
    p["order"] = draw(st.sampled_from(["alone", "before", "after", "twice"]))
    return p


@st.composite
def layout_dispatch_case(draw):
    """G1 layout program (arbitrary branch targets inside the main region: shared reject blocks, departures of
    several path blocks to one and the same block, cut-off loops that rejoin the kept code) + dispatch paths"""
    from vf.gen_layout import layout_program

    p = dict(draw(layout_program(structured=True, max_slots=12, max_subs=2, reuse_targets=True)))
    p.setdefault("features", [])
    p.setdefault("mode", None)
    g = RCFG(p)
    paths = main_paths(g)
    longer = [x for x in paths if len(x) >= 3] or [x for x in paths if len(x) >= 2]
    pick = lambda: draw(st.sampled_from(longer)) if longer and draw(st.integers(0, 4)) else draw(st.sampled_from(paths))
    # paths on which two blocks leave the path towards one and the same block (a shared reject / fallback block)
    first = {g.seq[b[0]].line: b for b in g.blocks}

    def departures(pth):
        out = []
        for k, l in enumerate(pth[:-1]):
            out += [x for x in g.succ_lines(g.seq[first[l][-1]].line) if x in first and x != pth[k + 1]]
        return out

    shared = [x for x in paths if len(set(departures(x))) < len(departures(x))]
    if shared and draw(st.integers(0, 7)):
        p["path"] = draw(st.sampled_from(shared))
        p["features"] = list(p["features"]) + ["two_departures_to_one_block"]
    else:
        p["path"] = pick()
    p["other"] = pick()
    p["order"] = draw(st.sampled_from(["alone", "before", "after", "twice"]))
    return p


def in_cycle(g: RCFG, line: int) -> bool:
    first = {g.seq[b[0]].line: b for b in g.blocks}
    seen, stack = set(), [l for l in g.succ_lines(g.seq[first[line][-1]].line) if l in first]
    while stack:
        l = stack.pop()
        if l == line:
            return True
        if l in seen:
            continue
        seen.add(l)
        stack.extend(x for x in g.succ_lines(g.seq[first[l][-1]].line) if x in first)
    return False


def graph_snapshot(teal):
    snap = []
    for b in teal.bbs:
        snap.append((b.idx, [x.idx for x in b.next], [x.idx for x in b.prev], [id(i) for i in b.instructions], id(b.subroutine)))
    snap.append(("main", [id(b) for b in teal.main.blocks], id(teal.main.entry)))
    for n, s in teal.subroutines.items():
        snap.append((n, [id(b) for b in s.blocks], [id(b) for b in s.caller_blocks], [id(b) for b in s.return_point_blocks], [id(b) for b in s.exit_blocks]))
    ins_edges = [(id(i), [id(x) for x in i.next], [id(x) for x in i.prev]) for i in teal.instructions]
    return snap, ins_edges


def build(teal, idx_path, name):
    from tealer.teal.parse_functions import construct_function

    with adapter.captured():
        try:
            fn = construct_function(teal, [f"B{i}" for i in idx_path], name)
        except BaseException as e:  # pylint: disable=broad-except
            raise Violation("construct-function-crash", f"path {idx_path}: {type(e).__name__}: {e}")
        finally:
            adapter.clear_caches()
    return fn


def fn_contexts(fn):
    out = {}
    for b in fn.blocks:
        c = fn.transaction_context(b)
        d = adapter.ctx_plain(c)
        d["gtxn"] = [adapter.ctx_plain(c.gtxn_context(i)) for i in range(16)]
        out[(b.idx, b.entry_instr.line)] = d
    return out


def check(case, no_loop_paths=False):
    g = RCFG(case)
    path, other, order = case["path"], case["other"], case["order"]
    if no_loop_paths and any(in_cycle(g, l) for l in path[:-1]):
        return {"nontrivial": False, "key": None, "features": ["excluded_path_through_loop"], "counters": {"excluded_known_finding": 1}}
    teal = adapter.parse(g.text)
    idx_of = {b.entry_instr.line: b.idx for b in teal.bbs}
    by_line = {b.entry_instr.line: b for b in teal.bbs}
    ipath = [idx_of[l] for l in path]
    iother = [idx_of[l] for l in other]
    before = graph_snapshot(teal)
    if order == "before":
        fn = build(teal, ipath, "f")
        build(teal, iother, "g")
    elif order == "after":
        build(teal, iother, "g")
        fn = build(teal, ipath, "f")
    elif order == "twice":
        build(teal, ipath, "f0")
        fn = build(teal, ipath, "f")
    else:
        fn = build(teal, ipath, "f")
    if graph_snapshot(teal) != before:
        raise Violation("contract-graph-changed", f"building functions {ipath} / {iother} ({order}) altered the contract's own graph\n{g.text}")
    where = f"path {path} (ids {ipath})\n{g.text}"
    # ---- structure
    fblocks = {b.entry_instr.line: b for b in fn.blocks if b.entry_instr.line < (1 << 16)}
    main_lines = {g.seq[b[0]].line for b in g.blocks if g.seq[b[0]].line in g.main_lines()}
    on_path = set(path)
    for k, l in enumerate(path):
        if l not in fblocks:
            raise Violation("path-block-missing", f"block at line {l} of the path is not in the function: {where}")
    for l, fb in fblocks.items():
        cb = by_line[l]
        if l in main_lines:
            if fb is cb:
                raise Violation("main-block-not-copied", f"function uses the contract's own main block at line {l}: {where}")
            if fb.idx != cb.idx or [str(i) for i in fb.instructions] != [str(i) for i in cb.instructions] or [i.line for i in fb.instructions] != [i.line for i in cb.instructions]:
                raise Violation("copy-differs", f"block at line {l}: copy differs in id/text/line numbers: {where}")
            exp_next = [x.entry_instr.line for x in cb.next]
            got_next = []
            for x in fb.next:
                xi = x.instructions
                if len(xi) == 1 and type(xi[0]).__name__ == "TealerCustomErrInstruction":
                    got_next.append("ERR")
                else:
                    got_next.append(x.entry_instr.line)
            kpos = path.index(l) if l in on_path else None
            if kpos is not None and kpos < len(path) - 1:
                want = [x if x == path[kpos + 1] else "ERR" for x in exp_next]
            else:
                want = exp_next
            if got_next != want:
                raise Violation("successors", f"block at line {l}: successors {got_next}, expected {want}: {where}")
        else:
            if fb is not cb:
                raise Violation("subroutine-block-not-shared", f"subroutine block at line {l} is not the contract's object: {where}")
    for n, s in fn.subroutines.items():
        if s is not teal.subroutines[n]:
            raise Violation("subroutine-not-shared", n)
    if len(path) == 1:
        reach = g.reach_from(g.seq[0].line, follow_calls=True)
        exp_lines = {g.seq[b[0]].line for b in g.blocks if g.seq[b[0]].line in reach}
        if set(fblocks) != exp_lines:
            raise Violation("whole-contract-function-blocks", f"blocks at {sorted(fblocks)} != {sorted(exp_lines)}: {where}")
    # ---- independence
    teal2 = adapter.parse(g.text)
    alone = build(teal2, ipath, "f")
    if fn_contexts(alone) != fn_contexts(fn):
        raise Violation("contexts-depend-on-other-functions", f"contexts of the function differ when built {order} another function (path {iother}): {where}")
    # ---- contexts sound w.r.t. executions that start with the path
    mode = case.get("mode") or "lsig"
    first_line = [g.seq[b[0]].line for b in g.blocks]
    nacc = nmatch = 0
    for env, res in ravm.search(g, ravm.Env(mode), cap=case.get("cap", 300)):
        if not res.accepted:
            continue
        nacc += 1
        depth0, depth, seq_lines = [], 0, []
        for i in res.trace:
            l = first_line[g.block_of[i]]
            if not seq_lines or seq_lines[-1][0] != l:
                seq_lines.append((l, depth))
            if g.seq[i].op == "callsub":
                depth += 1
            elif g.seq[i].op == "retsub":
                depth -= 1
        depth0 = [l for l, d in seq_lines if d == 0]
        # collapse repeated visits only as they happen; the prefix must match exactly
        if depth0[: len(path)] != path:
            continue
        nmatch += 1
        own = env.own_fields()
        sizes = [env.size] if env.size is not None else [s for s in range(1, 17) if env.index is None or s > env.index]
        for l, _ in set(seq_lines):
            fb = fblocks.get(l)
            if fb is None:
                raise Violation("executed-block-not-in-function", f"line {l} is executed by an execution that starts with the path ({env.describe()}): {where}")
            ctx = fn.transaction_context(fb)
            for s in sizes:
                if s not in ctx.group_sizes:
                    raise Violation("size-missing", f"block at line {l}: execution {env.describe()} starts with the path, GroupSize={s} not in {sorted(ctx.group_sizes)}: {where}")
            idxs = [env.index] if env.index is not None else list(range(0, max(sizes)))
            for i in idxs:
                if i not in ctx.group_indices:
                    raise Violation("index-missing", f"block at line {l}: GroupIndex={i} not in {sorted(ctx.group_indices)} ({env.describe()}): {where}")
            try:
                admits(ctx, own, True, env.mode, f"block at line {l}, execution {env.describe()}")
            except Violation as v:
                raise Violation(v.clause, f"{v.detail}: {where}")
    shares = bool(set(fn.subroutines)) and order in ("before", "after")
    return {"nontrivial": len(path) >= 2 and shares, "key": case_hash([g.text, path, other, order]),
            "features": [f"len={len(path)}", order] + (["path_through_loop"] if any(in_cycle(g, l) for l in path[:-1]) else []) + [f for f in case.get("features", []) if f == "two_departures_to_one_block"],
            "counters": {"accepted_executions": nacc, "executions_starting_with_path": nmatch}}


def check_exact(case, no_loop_paths=False):
    """GroupSize sets of the cut-out function are exact w.r.t. the literal reading of the contract with
    the off-path edges removed (direct-check fragment)"""
    from vf.rlit import Lit

    g = RCFG(case)
    path = case["path"]
    if any(in_cycle(g, l) for l in path[:-1]):
        return {"nontrivial": False, "key": None, "features": ["excluded_path_through_loop"], "counters": {"excluded_known_finding": 1}}
    teal = adapter.parse(g.text)
    idx_of = {b.entry_instr.line: b.idx for b in teal.bbs}
    fn = build(teal, [idx_of[l] for l in path], "f")
    fblocks = {b.entry_instr.line: b for b in fn.blocks if b.entry_instr.line < (1 << 16)}
    lit = Lit(g, case["items"])
    cut = set()
    for k, l in enumerate(path[:-1]):
        b = lit.block_by_line[l]
        last = g.seq[g.blocks[b][-1]]
        for sl in g.succ_lines(last.line):
            if sl != path[k + 1]:
                cut.add((b, lit.block_by_line[sl]))
    lit.cut_edges = frozenset(cut)
    where = f"path {path}\n{g.text}"
    for s_ in range(1, 17):
        cs, ci = lit.walks({"GroupSize": s_})
        for bi, line in enumerate(lit.first_line):
            fb = fblocks.get(line)
            if fb is None:
                if bi in cs:
                    raise Violation("block-missing-from-function", f"block at line {line} lies on an accepting walk that starts with the path but is not in the function: {where}")
                continue
            sizes = fn.transaction_context(fb).group_sizes
            if bi in cs and s_ not in sizes:
                raise Violation("size-not-listed", f"block at line {line}: an accepting walk that starts with the path admits GroupSize={s_}, listed {sorted(sizes)}: {where}")
            if s_ in sizes and bi not in ci:
                raise Violation("size-listed-but-excluded", f"block at line {line}: GroupSize={s_} listed but no accepting walk that starts with the path admits it: {where}")
    return {"nontrivial": len(path) >= 2, "key": case_hash([g.text, path]), "features": [f"len={len(path)}"]}


@st.composite
def exact_case(draw, disabled=()):
    p = draw(semantic_program(profile="direct", disabled=disabled, max_stmts=10, focus=["GroupSize", "GroupIndex"]))
    p = {k: p[k] for k in ("version", "items", "mode", "features", "structured")}
    paths = main_paths(RCFG(p))
    longer = [x for x in paths if len(x) >= 2]
    p["path"] = draw(st.sampled_from(longer)) if longer and draw(st.integers(0, 4)) else draw(st.sampled_from(paths))
    return p


# ------------------------------------------------------------------ functions listed in a group configuration
@st.composite
def config_case(draw, disabled=()):
    """program + 2-3 dispatch paths listed as functions of one contract in a group configuration; paths that
    end in the same block by different routes (a diamond in the dispatcher) are preferred"""
    p = draw(semantic_program(profile="modelled", disabled=disabled, max_stmts=10))
    p = {k: p[k] for k in ("version", "items", "mode", "features", "structured")}
    g = RCFG(p)
    paths = main_paths(g)
    by_last = {}
    for x in paths:
        by_last.setdefault(x[-1], []).append(x)
    same_end = [v for v in by_last.values() if len(v) >= 2]
    chosen = []
    if same_end and draw(st.integers(0, 3)):
        grp = draw(st.sampled_from(same_end))
        chosen = draw(st.lists(st.sampled_from(grp), min_size=2, max_size=2, unique_by=tuple))
        p["features"] = sorted(set(p["features"]) | {"paths_with_same_last_block"})
    n = draw(st.integers(2, 3))
    while len(chosen) < n:
        chosen.append(draw(st.sampled_from(paths)))
    p["paths"] = draw(st.permutations(chosen))
    return p


def fn_structure(fn):
    out = []
    for b in fn.blocks:
        if len(b.instructions) == 1 and type(b.instructions[0]).__name__ == "TealerCustomErrInstruction":
            continue
        nxt = ["ERR" if (len(x.instructions) == 1 and type(x.instructions[0]).__name__ == "TealerCustomErrInstruction") else x.idx for x in b.next]
        out.append((b.idx, b.entry_instr.line, [str(i) for i in b.instructions], nxt))
    return sorted(out)


def check_config(case, no_loop_paths=False):
    import os
    import shutil
    import tempfile
    from pathlib import Path

    import yaml
    from tealer.utils.command_line.common import init_tealer_from_config
    from tealer.utils.command_line.group_config import read_config_from_file
    from vf import env as vfenv

    g = RCFG(case)
    paths = [list(x) for x in case["paths"]]
    teal0 = adapter.parse(g.text)
    idx_of = {b.entry_instr.line: b.idx for b in teal0.bbs}
    ipaths = [[idx_of[l] for l in x] for x in paths]
    d = tempfile.mkdtemp(prefix="c12", dir=vfenv.OUT_ROOT)
    try:
        with open(os.path.join(d, "c.teal"), "w", encoding="utf-8") as f:
            f.write(g.text)
        app = case["mode"] == "app"
        functions = [{"name": f"f{k}", "dispatch_path": [f"B{i}" for i in ip]} for k, ip in enumerate(ipaths)]
        txn = {"txn_id": "T0", "txn_type": "appl" if app else "pay"}
        txn["application" if app else "logic_sig"] = {"contract": "c", "function": "f0"}
        cfg = {"name": "G", "contracts": [{"name": "c", "file_path": "c.teal", "type": "ApprovalProgram" if app else "LogicSig",
                                           "version": case["version"], "subroutines": [], "functions": functions}],
               "groups": [{"operation": "op", "transactions": [txn]}]}
        text = yaml.safe_dump(cfg, sort_keys=False)
        with open(os.path.join(d, "config.yaml"), "w", encoding="utf-8") as f:
            f.write(text)
        with adapter.captured():
            try:
                tl = init_tealer_from_config(read_config_from_file(Path(os.path.join(d, "config.yaml"))))
            except BaseException as e:  # pylint: disable=broad-except
                raise Violation("config-init-crash", f"{type(e).__name__}: {e}\n{text}\n{g.text}")
            finally:
                adapter.clear_caches()
    finally:
        shutil.rmtree(d, ignore_errors=True)
    teal = tl.contracts["c"]
    if sorted(teal.functions) != sorted(f["name"] for f in functions):
        raise Violation("config-functions", f"functions {sorted(teal.functions)} for configuration\n{text}")
    same_end = len({tuple(x) for x in paths}) > len({x[-1] for x in paths})
    for k, ip in enumerate(ipaths):
        fn = teal.functions[f"f{k}"]
        alone = build(adapter.parse(g.text), ip, f"f{k}")
        if fn_structure(fn) != fn_structure(alone):
            raise Violation("config-function-graph", f"function f{k} (path {paths[k]}, ids {ip}) listed with {ipaths}: its graph differs from the function built alone\n{g.text}")
        c1 = {str(a): b for a, b in fn_contexts(fn).items()}
        c2 = {str(a): b for a, b in fn_contexts(alone).items()}
        if c1 != c2:
            diff = [a for a in c1 if c1.get(a) != c2.get(a)][:3]
            raise Violation("config-function-contexts", f"function f{k} (path {paths[k]}, ids {ip}) listed with {ipaths}: contexts differ from the function built alone at blocks {diff}\n{g.text}")
    return {"nontrivial": same_end, "key": case_hash([g.text, paths]), "features": list(case.get("features", [])) + [f"functions{len(paths)}"],
            "counters": {"functions_compared": len(paths)}}


def components(tier, disabled):
    q = tier == "quick"
    nl = "dispatch_path_through_loop" in disabled
    return {
        "dispatch": {"strategy": dispatch_case(disabled), "check": lambda c: check(c, nl), "examples": 900 if q else 50000,
                     "sample": lambda c, i: {"path": c["path"], "order": c["order"], "source": RCFG(c).text}},
        "layout": {"strategy": layout_dispatch_case(), "check": lambda c: check(c, nl), "examples": 2000 if q else 100000,
                   "sample": lambda c, i: {"path": c["path"], "order": c["order"], "source": RCFG(c).text}},
        "exact": {"strategy": exact_case(disabled), "check": check_exact, "examples": 700 if q else 40000,
                  "sample": lambda c, i: {"path": c["path"], "source": RCFG(c).text}},
        "config": {"strategy": config_case(disabled), "check": check_config, "examples": 500 if q else 20000,
                   "sample": lambda c, i: {"paths": [list(x) for x in c["paths"]], "source": RCFG(c).text}},
    }
