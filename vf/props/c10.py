"""C10 - cross-transaction (gtxn) contexts are sound for other group members."""
from __future__ import annotations

from vf import ravm
from vf.core import Violation, case_hash
from vf.gen_sem import semantic_program
from vf.props.common_sem import Analysed, accepted_executions
from vf.rcfg import RCFG

MAXU64 = ravm.MAXU64
RULE = (
    "G2 modelled programs that read group members through `gtxn i f`, `int i; gtxns f`, `txn GroupIndex; int k; "
    "+/-; gtxns f` and `int k; txn GroupIndex; +` (indices 0..15, offsets incl. 0 and out of range) combined "
    "with own index/size checks. R-AVM runs on concrete groups (each member has its own field values; a field "
    "the execution never reads takes the attacker's value when a well-formed transaction can carry it). For "
    "every accepted execution and every block on its trace: absolute_context(i) admits Gtxn[i] for every i < "
    "GroupSize, gtxn_context(GroupIndex) admits the governed transaction, relative_context(k) admits "
    "Gtxn[GroupIndex+k] when it exists; gtxn_context(j) is empty for every j the block's own index set "
    "excludes. 'Admits' = the predicates of C07 (four kinds), C08 (addresses) and C09 (fee). Non-trivial = the "
    "program reads >= 2 distinct members or uses a relative read; distinct by source."
)
ASSUMPTIONS = ["R-AVM is the reference; only well-formed transactions are witnesses"]
ADDR = {"RekeyTo": "rekeyto", "CloseRemainderTo": "closeto", "AssetCloseTo": "assetcloseto", "Sender": "sender"}
KINDS = [("Pay", {"TypeEnum": 1}), ("Axfer", {"TypeEnum": 4}),
         ("ApplUpdateApplication", {"TypeEnum": 6, "OnCompletion": 4, "ApplicationID": 77}),
         ("ApplDeleteApplication", {"TypeEnum": 6, "OnCompletion": 5, "ApplicationID": 77})]


def _name(a):
    return "CREATOR_ADDRESS" if a == ravm.CREATOR else a.decode()


def admits(ctx, member: dict, is_own: bool, mode: str, what: str):
    """raise Violation unless ctx admits every value the (partially assigned) member can carry"""
    for field, attr in ADDR.items():
        if field in member:
            a = member[field]
        else:
            probe = dict(member)
            probe[field] = ravm.ATTACKER
            if not ravm.member_feasible(probe, is_own, mode):
                continue
            a = ravm.ATTACKER
        if a == ravm.ZERO:
            continue
        v = getattr(ctx, attr)
        if not (v.any_addr or _name(a) in v.possible_addr):
            raise Violation("address-not-admitted", f"{what}: {field}={_name(a)} but {attr}: any={v.any_addr} no={v.no_addr} possible={v.possible_addr}")
    fee = member.get("Fee", MAXU64)
    if not ctx.max_fee_unknown and fee > ctx.max_fee:
        raise Violation("fee-not-admitted", f"{what}: Fee={fee} but max_fee={ctx.max_fee}")
    types = {str(t) for t in ctx.transaction_types}
    for kind, req in KINDS:
        if any(k in member and member[k] != v for k, v in req.items() if k != "ApplicationID"):
            continue
        if "ApplicationID" in req and member.get("ApplicationID", 77) == 0:
            continue
        probe = dict(member)
        for k, v in req.items():
            probe.setdefault(k, v)
        if not ravm.member_feasible(probe, is_own, mode):
            continue
        if kind not in types:
            raise Violation("kind-not-admitted", f"{what}: the transaction can be {kind} but transaction_types={sorted(types)}")


def is_null(c) -> bool:
    return (not c.transaction_types and not c.rekeyto.any_addr and not c.rekeyto.possible_addr
            and not c.closeto.any_addr and not c.sender.any_addr and not c.assetcloseto.any_addr
            and not c.max_fee_unknown and c.max_fee == 0)


def check(case):
    an = Analysed(case)
    g = an.g
    nacc = 0
    for line, b in an.block_by_line.items():
        ctx = an.function.transaction_context(b)
        for j in range(16):
            if j not in ctx.group_indices and not is_null(ctx.gtxn_context(j)):
                raise Violation("impossible-index-not-empty", f"block at line {line}: index {j} is not a possible own index ({sorted(ctx.group_indices)}) but gtxn_context({j}) is not empty\n{g.text}")
    for env, res in accepted_executions(an, cap=case.get("cap", 300)):
        nacc += 1
        own_idx_known = env.index is not None
        sizes = [env.size] if env.size is not None else [16]
        size = sizes[0]
        idx = env.index
        for line in set(an.trace_block_lines(res.trace)):
            ctx = an.ctx(line)
            where = f"block at line {line}, execution {env.describe()}"
            try:
                if own_idx_known:
                    own = env.members.get(idx, {})
                    admits(ctx.gtxn_context(idx), own, True, env.mode, f"gtxn_context({idx}) [this transaction at index {idx}]")
                for i in range(size):
                    if own_idx_known:
                        m = env.members.get(i, {})
                        admits(ctx.absolute_context(i), m, i == idx, env.mode, f"absolute_context({i})")
                    elif i not in env.members:
                        # own index never read: position i may hold another, unconstrained transaction
                        admits(ctx.absolute_context(i), {}, False, env.mode, f"absolute_context({i})")
                if own_idx_known:
                    for k in range(-15, 16):
                        if k == 0 or not 0 <= idx + k < size:
                            continue
                        admits(ctx.relative_context(k), env.members.get(idx + k, {}), False, env.mode, f"relative_context({k}) [Gtxn[{idx + k}]]")
                else:
                    for k in range(-15, 16):
                        if k != 0:
                            admits(ctx.relative_context(k), {}, False, env.mode, f"relative_context({k})")
            except Violation as v:
                raise Violation(v.clause, f"{where}: {v.detail}\n{g.text}")
    feats = set(case.get("features", []))
    members = {it[2][0] for it in case["items"] if it[0] == "I" and it[1] == "gtxn"}
    nt = (len(members) >= 2 or "read_relative" in feats) and nacc > 0
    return {"nontrivial": nt, "key": case_hash(g.text), "features": sorted(feats), "counters": {"accepted_executions": nacc}}


def components(tier, disabled):
    q = tier == "quick"
    fields = ["RekeyTo", "CloseRemainderTo", "Fee", "TypeEnum", "Sender", "GroupIndex", "GroupSize", "AssetCloseTo"]
    if "oc_appid_checks_on_group_members" not in disabled:
        fields += ["OnCompletion", "ApplicationID"]
    return {
        "group": {"strategy": semantic_program(profile="modelled+group", disabled=disabled, max_stmts=(12 if q else 18), focus=fields),
                  "check": check, "examples": 1200 if q else 60000, "sample": lambda c, i: RCFG(c).text},
    }
