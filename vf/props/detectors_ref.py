"""Per-detector 'dangerous value' definitions shared by C01 / C02 / C03 / C13."""
from __future__ import annotations

from typing import Any, Dict, List, Optional

from vf import ravm
from vf.rlit import FRESH

MAXU64 = ravm.MAXU64
LIMIT = 272000

# detector -> (preset own-field values of the witness, restricted domains)
DANGER: Dict[str, dict] = {
    "rekey-to": {"own": {"RekeyTo": ravm.ATTACKER}},
    "can-close-account": {"own": {"CloseRemainderTo": ravm.ATTACKER, "TypeEnum": 1}},
    "can-close-asset": {"own": {"AssetCloseTo": ravm.ATTACKER, "TypeEnum": 4}},
    "missing-fee-check": {"restrict": {("own", "Fee"): [LIMIT + 1, MAXU64]}},
    "is-updatable": {"own": {"TypeEnum": 6, "OnCompletion": 4, "ApplicationID": 77}},
    "is-deletable": {"own": {"TypeEnum": 6, "OnCompletion": 5, "ApplicationID": 77}},
    "unprotected-updatable": {"own": {"TypeEnum": 6, "OnCompletion": 4, "ApplicationID": 77, "Sender": ravm.ATTACKER}},
    "unprotected-deletable": {"own": {"TypeEnum": 6, "OnCompletion": 5, "ApplicationID": 77, "Sender": ravm.ATTACKER}},
    "group-size-check": {"size": 16, "need_abs_read": True},
}
GOVERNED_FIELDS = {
    "rekey-to": ["RekeyTo"], "can-close-account": ["CloseRemainderTo", "TypeEnum"],
    "can-close-asset": ["AssetCloseTo", "TypeEnum"], "missing-fee-check": ["Fee"],
    "is-updatable": ["OnCompletion", "TypeEnum", "ApplicationID"], "is-deletable": ["OnCompletion", "TypeEnum", "ApplicationID"],
    "unprotected-updatable": ["OnCompletion", "TypeEnum", "ApplicationID", "Sender"],
    "unprotected-deletable": ["OnCompletion", "TypeEnum", "ApplicationID", "Sender"],
    "group-size-check": ["GroupSize"],
}
# valuations for R-LIT (literal reading): list of alternative valuations; dangerous if ANY admits an accepting walk
from vf.rlit import NONZERO  # noqa: E402

# alternatives; each alternative is a list of valuations that are read independently of each other
# (the detectors' two fields are tracked by independent analyses)
KIND_UPDATE = {"TypeEnum": 6, "OnCompletion": 4, "ApplicationID": NONZERO}
KIND_DELETE = {"TypeEnum": 6, "OnCompletion": 5, "ApplicationID": NONZERO}
LIT_VALUATIONS: Dict[str, List[List[dict]]] = {
    "rekey-to": [[{"RekeyTo": FRESH}]],
    # the two fields the detector looks at, nothing else (OnCompletion / ApplicationID are not its fields)
    "can-close-account": [[{"CloseRemainderTo": FRESH}, {"TypeEnum": 1}]],
    "can-close-asset": [[{"AssetCloseTo": FRESH}, {"TypeEnum": 4}]],
    "missing-fee-check": [[{"Fee": LIMIT + 1}], [{"Fee": MAXU64}]],
    # an application *call* (ApplicationID != 0; only comparisons with 0 are read) with the dangerous OnCompletion
    "is-updatable": [[KIND_UPDATE]],
    "is-deletable": [[KIND_DELETE]],
    "unprotected-updatable": [[KIND_UPDATE, {"Sender": FRESH}]],
    "unprotected-deletable": [[KIND_DELETE, {"Sender": FRESH}]],
    "group-size-check": [[{"GroupSize": 16}]],
}


def lit_valuations(det: str, g) -> List[dict]:
    """valuations whose admission means 'the dangerous value can be approved' (literal reading)"""
    if det != "missing-fee-check":
        return LIT_VALUATIONS[det]
    doms = ravm.Domains(g)
    fees = sorted({f for f in doms.fee if f > LIMIT} | {LIMIT + 1, MAXU64})
    return [[{"Fee": f}] for f in fees]


def base_env(detector: str, mode: str) -> Optional[ravm.Env]:
    d = DANGER[detector]
    e = ravm.Env(mode)
    for k, v in d.get("own", {}).items():
        e.own[k] = v
    if "size" in d:
        e.size = d["size"]
    if not ravm.env_feasible(e):
        return None
    return e


def find_witness(g, detector: str, mode: str, cap: int = 300):
    """-> (witness (env, res) or None, number of rejected dangerous executions, capped?)"""
    d = DANGER[detector]
    base = base_env(detector, mode)
    if base is None:
        return None, 0, False
    rejected = 0
    for env, res in ravm.search(g, base, cap=cap, restrict=d.get("restrict")):
        if res.accepted and (not d.get("need_abs_read") or res.abs_index_read):
            return (env, res), rejected, False
        rejected += 1
    return None, rejected, ravm.search.capped
