"""C20 - the regex engine reports exactly the reachable occurrences."""
from __future__ import annotations

from hypothesis import strategies as st

from vf import adapter
from vf.core import Violation, case_hash
from vf.gen_layout import layout_program
from vf.rcfg import RCFG

RULE = (
    "G1 programs (structured and unstructured) x label in retained labels or '*' x pattern of 1-4 instructions "
    "taken from a window of the program text (inside a block / across a fall-through into a label / ending at a "
    "branching instruction), or mutated to be absent, or overlapping. Oracle R-CFG instruction graph: expected "
    "match starts = reachable instructions where the pattern equals the straight-line chain (consecutive in "
    "source and unique successor); covered between 'before a match on a label->match path' and 'can reach a "
    "match'. Patterns whose verdict differs between 'consecutive in source' and 'unique-successor chain' are "
    "excluded by construction and counted. Non-trivial = a join or loop lies between the label and a match, or "
    ">= 2 matches; distinct by (source, label, pattern)."
)
ASSUMPTIONS = ["instruction-level flow: callsub continues at the next instruction (the anchored mechanism)"]
EXCLUDED = {"ambiguous": 0}


@st.composite
def regex_case(draw, no_diamond=False):
    prog = draw(st.one_of(layout_program(structured=True), layout_program(structured=False)))
    arrow_at = None
    if draw(st.integers(0, 5)) == 0:
        # an instruction whose text contains the separator of the regex file
        prog = dict(prog)
        items = list(prog["items"])
        cand = [k for k, it in enumerate(items) if it[0] == "I" and k > 0]
        if cand:
            k = draw(st.sampled_from(cand))
            lit = draw(st.sampled_from(['"a=>b"', '"=>"', '"x => y"']))
            items[k:k] = [["I", "byte", [lit]], ["I", "pop", []]]
            prog["items"] = items
            prog["features"] = sorted(set(prog.get("features", [])) | {"separator_in_instruction"})
            arrow_at = lit
    if prog["version"] >= 7 and draw(st.integers(0, 5)) == 0:
        # the two forms of `replace` (with and without the start immediate) are different instructions
        prog = dict(prog)
        items = list(prog["items"])
        cand = [k for k, it in enumerate(items) if it[0] == "I" and k > 0]
        for _ in range(draw(st.integers(1, 2))):
            if not cand:
                break
            k = draw(st.sampled_from(cand))
            if draw(st.booleans()):
                items[k:k] = [["I", "byte", ["0x0102"]], ["I", "byte", ["0x03"]], ["I", "replace", ["0"]], ["I", "pop", []]]
            else:
                items[k:k] = [["I", "byte", ["0x0102"]], ["I", "int", ["0"]], ["I", "byte", ["0x03"]], ["I", "replace", []], ["I", "pop", []]]
            cand = [k for k, it in enumerate(items) if it[0] == "I" and k > 0]
        prog["items"] = items
        prog["features"] = sorted(set(prog.get("features", [])) | {"replace_forms"})
    run_pat = None
    if draw(st.integers(0, 4)) == 0:
        # a run of repeated instructions (AAAA BBBB or ABABAB, stack neutral): occurrences of a self-overlapping
        # pattern share instructions there
        prog = dict(prog)
        items = list(prog["items"])
        cand = [k for k, it in enumerate(items) if it[0] == "I" and k > 0]
        if cand:
            k = draw(st.sampled_from(cand))
            r = draw(st.integers(3, 5))
            if draw(st.booleans()):
                items[k:k] = [["I", "int", ["1"]] for _ in range(r)] + [["I", "pop", []] for _ in range(r)]
                run_pat = [draw(st.sampled_from(["int 1", "pop"]))] * draw(st.integers(2, 3))
            else:
                items[k:k] = [x for _ in range(r) for x in (["I", "int", ["1"]], ["I", "pop", []])]
                run_pat = draw(st.sampled_from([["int 1", "pop", "int 1"], ["pop", "int 1", "pop"], ["int 1", "pop", "int 1", "pop"]]))
            prog["items"] = items
            prog["features"] = sorted(set(prog.get("features", [])) | {"repeated_run"})
    g = RCFG(prog)
    labels = [nd.imm[0] for nd in g.seq if nd.op == "label" and nd.idx in g.retained]
    label = draw(st.sampled_from(labels + ["*"] * max(2, len(labels))))
    ret = [nd for nd in g.seq if nd.idx in g.retained and nd.op not in ("#pragma",)]
    n = draw(st.integers(1, 4))
    start = draw(st.integers(0, max(0, len(ret) - 1)))
    if "replace_forms" in prog.get("features", []) and draw(st.booleans()):
        hits = [k for k, nd in enumerate(ret) if nd.op == "replace"]
        if hits:
            start = max(0, draw(st.sampled_from(hits)) - draw(st.integers(0, 1)))
    if arrow_at is not None and draw(st.booleans()):
        hits = [k for k, nd in enumerate(ret) if nd.op == "byte" and arrow_at in nd.text]
        if hits:
            start = hits[0]
    window = [nd.text for nd in g.seq[ret[start].idx: ret[start].idx + n]] if ret else ["int 1"]
    mode = draw(st.integers(0, 5))
    if mode == 0:  # mutate -> probably absent
        k = draw(st.integers(0, len(window) - 1))
        window[k] = draw(st.sampled_from(["int 424242", "txn Note", "pop", "int 1", "err"]))
    elif mode == 1:  # short repeated pattern (overlaps)
        window = [window[0]] * draw(st.integers(1, 3))
    elif mode == 2:  # near miss: one line differs from the program text in an immediate only
        for k, w in enumerate(window):
            t = w.split()
            if t[:1] == ["replace"]:
                window[k] = "replace" if len(t) == 2 else "replace 0"
                break
            if t[0] in ("int", "pushint") and len(t) == 2 and t[1].isdigit():
                window[k] = f"{t[0]} {int(t[1]) + 1}"
                break
    if run_pat is not None and draw(st.integers(0, 3)):
        window = run_pat
    return {"program": prog, "label": label, "pattern": window}


def check(case):
    from tealer.utils.regex.regex import match_regex, parse_regex

    g = RCFG(case["program"])
    label, pattern = case["label"], case["pattern"]
    try:
        teal = adapter.parse(g.text)
    except adapter.TealerCrash as e:
        raise Violation("parse-crash", str(e))
    text = f"{label} =>\n" + "\n".join(pattern)
    try:
        with adapter.captured():
            rx = parse_regex(text)
            matches, covered = match_regex(teal, rx)
    except BaseException as e:  # pylint: disable=broad-except
        raise Violation("regex-crash", f"{type(e).__name__}: {e} for {text!r}")
    # ---- reference
    root = 0 if label == "*" else g.label_at[label]
    if root not in g.retained:
        return {"nontrivial": False, "key": None, "features": ["label_not_retained"]}
    reach = set()
    stack = [root]
    while stack:
        i = stack.pop()
        if i in reach:
            continue
        reach.add(i)
        stack.extend(g.succ[i])
    norm = lambda s: " ".join(s.split())
    pat = [norm(p) for p in pattern]

    def chain(i, strict):
        out = [i]
        for _ in range(len(pat) - 1):
            s = list(dict.fromkeys(g.succ[out[-1]]))
            if len(s) != 1:
                return None
            if strict and (s[0] != out[-1] + 1 or len(g.succ[out[-1]]) != 1):
                return None
            out.append(s[0])
        return out

    def starts(strict):
        res = {}
        for i in sorted(reach):
            c = chain(i, strict)
            if c is not None and [norm(g.seq[k].text) for k in c] == pat:
                res[i] = c
        return res

    exp_strict, exp_loose = starts(True), starts(False)
    if set(exp_strict) != set(exp_loose):
        return {"nontrivial": False, "key": None, "features": ["excluded_ambiguous_window"], "counters": {"excluded_ambiguous": 1}}
    exp = exp_strict
    got = {}
    for m in matches:
        ls = [ins.line for ins in m]
        got[ls[0]] = ls
    exp_lines = {g.seq[i].line: [g.seq[k].line for k in c] for i, c in exp.items()}
    if len(matches) != len(got):
        raise Violation("match-duplicated", f"{len(matches)} matches for {len(got)} distinct starts; {text!r}")
    if set(got) != set(exp_lines):
        raise Violation("match-set", f"matches start at lines {sorted(got)}, expected {sorted(exp_lines)} for {text!r}")
    for s, ls in got.items():
        if ls != exp_lines[s]:
            raise Violation("match-instructions", f"match at line {s} lists lines {ls}, expected {exp_lines[s]}")
    # ---- covered
    cov = {ins.line for ins in covered}
    # can reach a match start (within reach)
    pred = {i: [] for i in reach}
    for i in reach:
        for s in g.succ[i]:
            if s in reach:
                pred[s].append(i)
    can = set()
    stack = list(exp)
    while stack:
        i = stack.pop()
        if i in can:
            continue
        can.add(i)
        stack.extend(pred[i])
    match_ins = {k for c in exp.values() for k in c}
    upper = {g.seq[i].line for i in can | match_ins}
    # lower bound: every instruction (other than a match start) that has a successor from which a match
    # start can be reached lies on a path label -> ... -> match (paths may go round loops)
    lower = {g.seq[i].line for i in reach if any(s2 in can for s2 in g.succ[i])} - {g.seq[i].line for i in exp}
    budget = [1]
    if not cov <= upper:
        raise Violation("covered-too-much", f"covered lines {sorted(cov - upper)} reach no match; {text!r}")
    if not lower <= cov:
        raise Violation("covered-incomplete", f"lines {sorted(lower - cov)} lie on a path from {label!r} to a match but are not covered; {text!r}")
    joins = any(len(pred[i]) > 1 for i in can)
    nt = bool(exp) and (joins or len(exp) >= 2)
    feats = [f"matches={min(len(exp), 3)}", f"patlen={len(pat)}"] + (["join_or_loop_before_match"] if joins and exp else [])
    if budget[0] <= 0:
        feats.append("simple_path_budget_hit")
    return {"nontrivial": nt, "key": case_hash([g.text, label, pat]), "features": feats}


def components(tier, disabled):
    q = tier == "quick"
    return {
        "regex": {"strategy": regex_case(), "check": check, "examples": 8000 if q else 400000,
                  "sample": lambda c, i: {"source": RCFG(c["program"]).text, "label": c["label"], "pattern": c["pattern"]}},
    }
