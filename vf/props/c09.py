"""C09 - per-block fee bound is an upper bound on every approvable fee."""
from __future__ import annotations

from vf import ravm
from vf.core import Violation, case_hash
from vf.gen_sem import semantic_program, FEE_CONSTS
from vf.ir import I, L
from vf.props.common_sem import Analysed, accepted_executions
from vf.rcfg import RCFG
from vf.rlit import Lit

MAXU64 = ravm.MAXU64
LIMIT = 272000
RULE = (
    "sound: G2 modelled programs with Fee compared against integer constants (both operand orders, six "
    "operators, !, &&, ||, joins, subroutines, loops); for every accepted R-AVM execution (Fee representatives "
    "0, c-1, c, c+1, 1000, 272000, 272001, 2^64-1) and every block on its trace: max_fee_unknown or Fee <= "
    "max_fee. structural: direct-check programs; if R-LIT admits Fee = 2^64-1 on an accepting path through a "
    "block, the block must not be credited with a bound <= 272000. single: the finite family of single direct "
    "checks equivalent to Fee<=c / Fee<c / Fee==c (plain, mirrored, negated, negated+mirrored) x consumer "
    "(assert, bz, bnz, return) x 12 constants is enumerated exhaustively; bound on the accepting blocks must "
    "equal the implied bound. Non-trivial = constant on the left, or operator in {<,>,>=,!=}, or c in "
    "{0, 2^64-1}; distinct by source."
)
ASSUMPTIONS = ["R-AVM / R-LIT are the references", "blocks whose bound is 'unknown' (documented heuristic) are skipped for soundness and counted"]


def _nt(case):
    f = set(case.get("features", []))
    return bool({"const_left", "ordered_cmp", "not"} & f)


def check_sound(case):
    an = Analysed(case)
    g = an.g
    nacc = nunk = 0
    for env, res in accepted_executions(an, cap=case.get("cap", 400)):
        nacc += 1
        own = env.own_fields()
        fee = own.get("Fee", MAXU64)  # never read: any fee is approved, in particular the largest
        for line in set(an.trace_block_lines(res.trace)):
            ctx = an.ctx(line)
            if ctx.max_fee_unknown:
                nunk += 1
                continue
            if fee > ctx.max_fee:
                raise Violation("fee-above-bound", f"block at line {line}: accepted execution with Fee={fee} ({env.describe()}) but max_fee={ctx.max_fee}\n{g.text}")
    return {"nontrivial": _nt(case) and nacc > 0, "key": case_hash(g.text), "features": case.get("features", []),
            "counters": {"accepted_executions": nacc, "blocks_with_unknown_bound_skipped": nunk}}


def check_structural(case):
    an = Analysed(case)
    g = an.g
    lit = Lit(g, case["items"])
    cs_max, _ = lit.walks({"Fee": MAXU64})
    cs_big, _ = lit.walks({"Fee": LIMIT + 1})
    for bi, line in enumerate(lit.first_line):
        if line not in an.block_by_line:
            continue
        ctx = an.ctx(line)
        for val, cs in ((MAXU64, cs_max), (LIMIT + 1, cs_big)):
            if bi in cs and (ctx.max_fee_unknown or ctx.max_fee < val):
                raise Violation("bound-without-check", f"block at line {line}: an accepting path through it admits Fee={val} but it is credited with max_fee={ctx.max_fee} unknown={ctx.max_fee_unknown}\n{g.text}")
    return {"nontrivial": _nt(case), "key": case_hash(g.text), "features": case.get("features", [])}


# ------------------------------------------------------------------ exhaustive single-check family
def _single_cases():
    out = []
    forms = [("<=", 0), ("<", -1), ("==", 0)]  # (operator on `Fee op c`, implied bound offset)
    mirror = {"<=": ">=", "<": ">", "==": "=="}
    negate = {"<=": ">", "<": ">=", "==": "!="}
    for c in FEE_CONSTS:
        for op, off in forms:
            bound = c + off if c + off >= 0 else None
            for mirrored in (False, True):
                for negated in (False, True):
                    for consumer in ("assert", "bz", "bnz", "return"):
                        for via in ("int", "pushint"):
                            o = negate[op] if negated else op
                            if mirrored:
                                o2 = {"<": ">", "<=": ">=", ">": "<", ">=": "<=", "==": "==", "!=": "!="}[o]
                                body = [I(via, c), I("txn", "Fee"), I(o2)]
                            else:
                                body = [I("txn", "Fee"), I(via, c), I(o)]
                            if negated:
                                body.append(I("!"))
                            if consumer == "assert":
                                items = body + [I("assert"), I("int", 1), I("return")]
                                good = [1]
                            elif consumer == "return":
                                items = body + [I("return")]
                                good = [1]
                            elif consumer == "bz":
                                items = body + [I("bz", "rej"), I("int", 1), I("return"), L("rej"), I("err")]
                                good = [1, len(body) + 3]
                            else:
                                items = body + [I("bnz", "ok"), I("err"), L("ok"), I("int", 1), I("return")]
                                good = [1, len(body) + 4]
                            out.append({"version": 3, "items": items, "bound": bound, "good": good,
                                        "desc": f"Fee {op} {c} mirrored={mirrored} negated={negated} {consumer} {via}",
                                        "nt": mirrored or negated or op == "<" or c in (0, MAXU64)})
    return out


def check_single(case):
    g = RCFG(case)
    an = Analysed(case)
    exp = case["bound"]
    for line in case["good"]:
        ctx = an.ctx(line)
        want = 0 if exp is None else exp
        if ctx.max_fee_unknown or ctx.max_fee != want:
            raise Violation("single-check-bound", f"{case['desc']}: block at line {line} has max_fee={ctx.max_fee} unknown={ctx.max_fee_unknown}, implied bound {want}\n{g.text}")
    return {"nontrivial": case["nt"], "key": case_hash(g.text), "features": [case["desc"].split(" mirrored")[0].rsplit(" ", 1)[0]]}


def components(tier, disabled):
    q = tier == "quick"
    return {
        "sound": {"strategy": semantic_program(profile="modelled", disabled=disabled, max_stmts=(12 if q else 18), focus=["Fee", "Fee", "RekeyTo", "GroupSize"], mode="lsig"),
                  "check": check_sound, "examples": 2500 if q else 120000, "sample": lambda c, i: RCFG(c).text},
        "structural": {"strategy": semantic_program(profile="direct", disabled=disabled, max_stmts=(12 if q else 18), focus=["Fee"], mode="lsig"),
                       "check": check_structural, "examples": 2000 if q else 100000, "sample": lambda c, i: RCFG(c).text},
        "single": {"enumerate": _single_cases, "check": check_single, "exhaustive": True, "shards": 16,
                   "sample": lambda c, i: c["desc"]},
    }
