"""C19 - version, mode and cost reporting agree with the AVM specification."""
from __future__ import annotations

import re

from hypothesis import strategies as st

from vf import adapter, linegram as lg, rops
from vf.core import Violation, case_hash

RULE = (
    "versions: exhaustive grid opcode x (every field of its family) x declared version 1..8 and no pragma "
    "(the array-field opcodes also in their short spelling, `gitxn 0 Logs 0` = gitxna); the "
    "'not supported' lines on stderr must flag exactly the lines whose opcode or field (txn, global, "
    "asset_holding, asset_params, app_params, acct_params families) was introduced after the declared version, "
    "with the right introduction version. mode: random mixtures of opcodes; Teal.mode must be the mode of the "
    "first mode-specific instruction (Any if none), the mixture message appears iff both kinds occur, "
    "contract_type is ApprovalProgram iff Stateful and the single-contract run analyses it as application iff "
    "Stateful. cost: random straight-line blocks whose instructions are all available in the declared version; "
    "BasicBlock.cost and the 'cost = N' block comment must equal the sum of the R-OPS costs for that version "
    "(labels and pragma cost nothing). Entries R-OPS marks uncertain (method, input-dependent costs) are "
    "generated but not asserted. Non-trivial = declared version below the newest opcode/field of the program, "
    "or an opcode with version-dependent / non-unit cost; distinct by source."
)
ASSUMPTIONS = ["R-OPS (vf/rops.py), cross-checked against PyTeal's tables at setup, is the reference for introduction versions, modes and costs"]

SAMPLE = {
    "u8": "1", "u64": "7", "i8": "-1", "label": "l1", "addr": lg.ADDRS[1], "ecdsa": "Secp256k1",
    "b64enc": "StdEncoding", "jsont": "JSONUint64", "vrfstd": "VrfAlgorand", "blockf": "BlkSeed",
    "method": '"a()void"', "bytes": "0x01", "txnf_any": "Fee",
}
CHECKED_FAMILIES = ("txnf", "txnaf", "globalf", "aholdf", "aparamf", "appparamf", "acctparamf")


# the assembler accepts the array-field opcodes under the name of their scalar sibling with one more
# immediate (`gitxn 0 Logs 0` is `gitxna 0 Logs 0`): "<long name>@short" denotes that spelling
SHORT_SPELLING = {"txna": "txn", "gtxna": "gtxn", "gtxnsa": "gtxns", "itxna": "itxn", "gitxna": "gitxn"}


def base(name):
    return name.split("@")[0]


def op_line(name, field=None, curve=None):
    """-> (text, decoded immediates, field name or None, family)"""
    if name.endswith("@short"):
        text, vals, fld, fam = op_line(base(name), field, curve)
        return " ".join([SHORT_SPELLING[base(name)]] + text.split(" ")[1:]), vals, fld, fam
    op = rops.OPS[name]
    toks, vals, fld, fam = [], [], None, None
    for kind in op.imm:
        if kind in rops.FIELD_FAMILIES:
            f = field if field is not None else sorted(rops.FIELD_FAMILIES[kind])[0]
            toks.append(f); vals.append(f); fld, fam = f, kind
        elif kind == "labels":
            toks += ["l1", "l2"]; vals.append(["l1", "l2"])
        elif kind == "ints":
            toks += ["1", "2"]; vals.append([1, 2])
        elif kind == "bytess":
            toks += ["0x01", "0x02"]; vals.append(["01", "02"])
        elif kind == "ecdsa":
            c = curve or "Secp256k1"
            toks.append(c); vals.append(c)
        elif kind == "u8opt":
            toks.append("0"); vals.append(0)
        elif kind in ("u8", "u64", "i8"):
            toks.append(SAMPLE[kind]); vals.append(int(SAMPLE[kind]))
        else:
            toks.append(SAMPLE[kind]); vals.append(SAMPLE[kind])
    return " ".join([name] + toks), vals, fld, fam


def version_cases():
    out = []
    for name, op in rops.OPS.items():
        fams = [k for k in op.imm if k in rops.FIELD_FAMILIES]
        fields = sorted(rops.FIELD_FAMILIES[fams[0]]) if fams else [None]
        for f in fields:
            for v in [None, 1, 2, 3, 4, 5, 6, 7, 8]:
                out.append({"name": name, "field": f, "version": v})
                if name in SHORT_SPELLING:
                    out.append({"name": name + "@short", "field": f, "version": v})
    return out


ERR_INS = re.compile(r"^(\d+): (.*) instruction is not supported in Teal version (\d+), it is supported from Teal version (\d+)$")
ERR_FIELD = re.compile(r"^(\d+): (.*), field (.*) is not supported in Teal version (\d+), it is supported from Teal version (\d+)$")


def flagged(stderr: str):
    out = {}
    for line in stderr.splitlines():
        m = ERR_INS.match(line.strip())
        if m:
            out[int(m.group(1))] = ("ins", int(m.group(3)), int(m.group(4)))
            continue
        m = ERR_FIELD.match(line.strip())
        if m:
            out[int(m.group(1))] = ("field", int(m.group(4)), int(m.group(5)))
    return out


# the directive line may carry trailing white space or a comment like any other line
PRAGMA_DECO = ["", "", " // teal", "  ", "\t// version", " //"]


def check_version(case, skip_global=False):
    name, field, v = case["name"], case["field"], case["version"]
    op = rops.OPS[base(name)]
    text, vals, fld, fam = op_line(name, field)
    lines = ([f"#pragma version {v}" + PRAGMA_DECO[(len(text) + (v or 0)) % len(PRAGMA_DECO)]] if v is not None else []) + [text, "l1:", "l2:", "int 1"]
    src = "\n".join(lines) + "\n"
    try:
        teal = adapter.parse(src)
    except adapter.TealerCrash as e:
        raise Violation("parse-crash", f"{e}\n{src}")
    declared = v if v is not None else 1
    if teal.version != declared:
        raise Violation("declared-version", f"Teal.version={teal.version}, declared {declared}\n{src}")
    got = flagged(teal._vf_stderr)  # pylint: disable=protected-access
    ln = 2 if v is not None else 1
    exp = {}
    if op.version > declared:
        exp[ln] = ("ins", declared, op.version)
    elif fld is not None and fam in CHECKED_FAMILIES and rops.FIELD_FAMILIES[fam][fld] > declared:
        exp[ln] = ("field", declared, rops.FIELD_FAMILIES[fam][fld])
    if not op.certain:
        return {"nontrivial": False, "key": None, "features": ["uncertain_not_asserted"], "counters": {"not_asserted": 1}}
    if fam == "globalf" and skip_global:
        return {"nontrivial": False, "key": None, "features": ["excluded_global_field_version"], "counters": {"excluded_known_finding": 1}}
    if set(got) != set(exp):
        raise Violation("unsupported-flag", f"declared version {declared}: flagged lines {got}, expected {exp}\n{src}")
    for l, e in exp.items():
        if name.endswith("@short") and fld is not None and got[l][1] == e[1] and got[l][2] > declared and \
                got[l][2] in (op.version, rops.FIELD_FAMILIES[fam][fld]):
            # short spelling: the line may be reported through the field (introduced with or after the
            # array opcode) or through the opcode; both name a version the line really needs
            continue
        if got[l][2] != e[2] or got[l][1] != e[1]:
            raise Violation("unsupported-flag-version", f"line {l}: reported {got[l]}, expected {e}\n{src}")
    return {"nontrivial": bool(exp), "key": case_hash(src), "features": [f"v{declared}", "field" if fld else "plain"]}


# ------------------------------------------------------------------ mode
STRAIGHT = [n for n, o in rops.OPS.items() if o.kind in ("compute", "shuffle") and o.certain and n not in ("intcblock", "bytecblock")]
MODAL = [n for n in STRAIGHT if rops.OPS[n].mode != "A"]
STRAIGHT_M = STRAIGHT + [n + "@short" for n in SHORT_SPELLING if n in STRAIGHT]
MODAL_M = MODAL + [n + "@short" for n in SHORT_SPELLING if n in MODAL] * 3


@st.composite
def mode_case(draw):
    n = draw(st.integers(1, 10))
    names = []
    for _ in range(n):
        k = draw(st.integers(0, 5))
        names.append(draw(st.sampled_from(MODAL_M)) if k == 0 else draw(st.sampled_from(STRAIGHT_M)))
    dead = []
    if draw(st.integers(0, 2)) == 0:
        # mode-specific opcodes that sit in unreachable code still make the program mode-specific:
        # the AVM validates every opcode of the program against the run mode before executing it
        for _ in range(draw(st.integers(1, 3))):
            dead.append(draw(st.sampled_from(MODAL_M)) if draw(st.booleans()) else draw(st.sampled_from(STRAIGHT_M)))
    return {"names": names, "dead": dead}


def check_mode(case):
    from tealer.utils.teal_enums import ExecutionMode, ContractType

    lines = ["#pragma version 8" + PRAGMA_DECO[(len(case["names"]) + len(case["dead"])) % len(PRAGMA_DECO)]]
    for nm in case["names"]:
        lines.append(op_line(nm)[0])
    dead = case.get("dead") or []
    if dead:
        lines += ["int 1", "return", "unused:"]
        for nm in dead:
            lines.append(op_line(nm)[0])
    src = "\n".join(lines) + "\n"
    modes = [rops.OPS[base(nm)].mode for nm in list(case["names"]) + list(dead)]
    first = next((m for m in modes if m != "A"), "A")
    want_mode = {"A": ExecutionMode.ANY, "S": ExecutionMode.STATELESS, "P": ExecutionMode.STATEFUL}[first]
    try:
        tl = adapter.init_single(src)
    except adapter.TealerCrash as e:
        raise Violation("analysis-crash", f"{e}\n{src}")
    teal = tl.contracts_list[0]
    if teal.mode != want_mode:
        raise Violation("mode", f"Teal.mode={teal.mode}, first mode-specific instruction says {want_mode}\n{src}")
    stderr = adapter.parse(src)._vf_stderr  # pylint: disable=protected-access
    mixture = "specific to both Application and Signature Mode" in stderr
    if mixture != ("S" in modes and "P" in modes):
        raise Violation("mixture-message", f"mixture flagged={mixture}, modes {modes}\n{src}")
    want_type = ContractType.ApprovalProgram if first == "P" else ContractType.LogicSig
    if teal.contract_type != want_type:
        raise Violation("contract-type", f"{teal.contract_type} != {want_type}\n{src}")
    from tealer.printers.human_summary import PrinterHumanSummary

    with adapter.captured() as (out, _err):
        PrinterHumanSummary(teal).print()
    shown = out.getvalue()
    want_word = {"A": "Any", "S": "Stateless", "P": "Stateful"}[first]
    if "Program version: 8\n" not in shown or f"Mode: {want_word}\n" not in shown:
        raise Violation("human-summary", f"human-summary shows {shown.strip().splitlines()[:2]}, expected version 8 / mode {want_word}\n{src}")
    txn = tl.groups[0].transactions[0]
    as_app = txn.application is not None
    as_lsig = txn.logic_sig is not None
    if as_app != (first == "P") or as_lsig == as_app:
        raise Violation("analysed-as", f"application={as_app} logic_sig={as_lsig}, expected application={first == 'P'}\n{src}")
    return {"nontrivial": first != "A", "key": case_hash(src), "features": [f"first={first}", "mixture" if ("S" in modes and "P" in modes) else "pure"] + (["modal_in_dead_code"] if any(rops.OPS[base(n)].mode != "A" for n in dead) else []) + (["array_field_short_spelling"] if any("@" in n for n in list(case["names"]) + list(dead)) else [])}


# ------------------------------------------------------------------ cost
@st.composite
def cost_case(draw):
    v = draw(st.sampled_from([1, 2, 3, 4, 5, 6, 7, 8, 8, 8]))
    avail = [n for n in STRAIGHT if rops.OPS[n].version <= v and rops.OPS[n].cost is not None]
    pricey = [n for n in avail if not isinstance(rops.OPS[n].cost, int) or rops.OPS[n].cost != 1]
    n = draw(st.integers(1, 12))
    rows = []
    for _ in range(n):
        nm = draw(st.sampled_from(pricey)) if pricey and draw(st.integers(0, 2)) == 0 else draw(st.sampled_from(avail))
        curve = None
        if "ecdsa" in rops.OPS[nm].imm:
            curve = draw(st.sampled_from(["Secp256k1"] + (["Secp256r1"] if v >= 7 else [])))
        fld = None
        fams = [k for k in rops.OPS[nm].imm if k in rops.FIELD_FAMILIES]
        if fams:
            ok = [f for f, fv in rops.FIELD_FAMILIES[fams[0]].items() if fv <= v]
            if not ok:
                continue
            fld = draw(st.sampled_from(sorted(ok)))
        rows.append([nm, fld, curve])
    with_label = draw(st.booleans())
    return {"version": v, "rows": rows, "label": with_label, "pragma": draw(st.booleans()) or v > 1}


def check_cost(case, zero_cost_pseudo=True):
    v = case["version"]
    lines = []
    if case["pragma"]:
        lines.append(f"#pragma version {v}" + PRAGMA_DECO[(len(case["rows"]) + v) % len(PRAGMA_DECO)])
    total = 0
    nt = False
    body = []
    for nm, fld, curve in case["rows"]:
        text, vals, _, _ = op_line(nm, fld, curve)
        body.append(text)
        c = rops.cost(nm, v, vals)
        total += c
        nt |= c != 1 or callable(rops.OPS[nm].cost)
    if not body:
        body = ["int 1"]
        total = 1
    if case["label"]:
        # a second block that starts with a label
        lines += body[: len(body) // 2 + 1] + ["b lbl", "lbl:"] + body[len(body) // 2 + 1:]
    else:
        lines += body
    src = "\n".join(lines) + "\n"
    try:
        teal = adapter.parse(src)
    except adapter.TealerCrash as e:
        raise Violation("parse-crash", f"{e}\n{src}")
    # expected per block
    for bb in teal.bbs:
        exp = 0
        for ins in bb.instructions:
            t = lines[ins.line - 1]
            first = t.split()[0]
            if first.endswith(":") or first.startswith("#pragma"):
                continue
            r = lg.recognise(t)
            exp += rops.cost(r[0], v, r[1])
        if bb.cost != exp:
            raise Violation("block-cost", f"block at line {bb.entry_instr.line}: cost {bb.cost}, AVM cost for version {v} is {exp}\n{src}")
        if not bb.tealer_comments or bb.tealer_comments[0] != f"block_id = {bb.idx}; cost = {exp}":
            raise Violation("block-cost-comment", f"block at line {bb.entry_instr.line}: comment {bb.tealer_comments[:1]}, expected cost = {exp}\n{src}")
    return {"nontrivial": nt, "key": case_hash(src), "features": [f"v{v}", "label" if case["label"] else "nolabel"]}


def components(tier, disabled):
    q = tier == "quick"
    skip_global = "global_field_version" in disabled
    return {
        "versions": {"enumerate": version_cases, "check": lambda c: check_version(c, skip_global), "exhaustive": True, "shards": 16,
                     "sample": lambda c, i: c},
        "mode": {"strategy": mode_case(), "check": check_mode, "examples": 1500 if q else 60000, "sample": lambda c, i: c["names"]},
        "cost": {"strategy": cost_case(), "check": check_cost, "examples": 6000 if q else 300000, "sample": lambda c, i: c},
    }
