"""C06 - per-block GroupSize/GroupIndex sets are sound and exact."""
from __future__ import annotations

from vf import ravm
from vf.core import Violation, case_hash
from vf.gen_sem import semantic_program
from vf.props.common_sem import Analysed, accepted_executions
from vf.rlit import Lit

RULE = (
    "soundness: G2 modelled-fragment programs (size/index checks in both operand orders, six operators, "
    "&&/||/!, loops, shared subroutines, shuffles, scratch); every accepted R-AVM execution (lazy valuation "
    "search over representative sizes/indices/fields) must have its GroupSize and GroupIndex in the sets of "
    "every block on its trace (an input the execution never reads counts for all its values). exactness: G2 "
    "direct-check programs; per block lit_cs(v) => v listed => lit_ci(v) for sizes 1..16, for indices the same "
    "with the size coupling, every listed index below some listed size. Non-trivial = program has a check with "
    "the constant on the left or an ordered operator on GroupSize/GroupIndex, or a subroutine with >= 2 call "
    "sites; distinct by source."
)
ASSUMPTIONS = ["R-AVM and R-LIT are the references; precision is only asserted on the direct-check fragment"]
FIELDS = ["GroupSize", "GroupIndex"]


def _nontrivial(case, g):
    feats = set(case.get("features", []))
    return bool({"const_left", "ordered_cmp"} & feats) or "shared_subroutine" in g.features()


def check_sound(case):
    an = Analysed(case)
    g = an.g
    nacc = 0
    for env, res in accepted_executions(an, cap=case.get("cap", 400)):
        nacc += 1
        sizes = [env.size] if env.size is not None else [s for s in range(1, 17) if env.index is None or s > env.index]
        for line in set(an.trace_block_lines(res.trace)):
            ctx = an.ctx(line)
            for s in sizes:
                if s not in ctx.group_sizes:
                    raise Violation("size-missing", f"block at line {line}: accepted execution with GroupSize={s} ({env.describe()}) but group_sizes={sorted(ctx.group_sizes)}\n{g.text}")
            if env.index is not None:
                idxs = [env.index]
            else:
                idxs = list(range(0, max(sizes)))
            for i in idxs:
                if i not in ctx.group_indices:
                    raise Violation("index-missing", f"block at line {line}: accepted execution with GroupIndex={i} ({env.describe()}) but group_indices={sorted(ctx.group_indices)}\n{g.text}")
    return {"nontrivial": _nontrivial(case, g) and nacc > 0, "key": case_hash(g.text), "features": case.get("features", []),
            "counters": {"accepted_executions": nacc, "programs_without_accepting_execution": int(nacc == 0)}}


def check_exact(case):
    an = Analysed(case)
    g = an.g
    lit = Lit(g, case["items"])
    size_cs, size_ci = {}, {}
    for s in range(1, 17):
        size_cs[s], size_ci[s] = lit.walks({"GroupSize": s})
    idx_ci = {}
    for i in range(0, 16):
        _, idx_ci[i] = lit.walks({"GroupIndex": i})
    joint_needed = "GroupIndex" in lit.block_fields()
    for bi, line in enumerate(lit.first_line):
        if line not in an.block_by_line:
            continue
        ctx = an.ctx(line)
        tool_s, tool_i = set(ctx.group_sizes), set(ctx.group_indices)
        for s in range(1, 17):
            if bi in size_cs[s] and s not in tool_s:
                raise Violation("size-not-listed", f"block at line {line}: an accepting path admits GroupSize={s}, listed {sorted(tool_s)}\n{g.text}")
            if s in tool_s and bi not in size_ci[s]:
                raise Violation("size-listed-but-excluded", f"block at line {line}: GroupSize={s} is listed but no accepting path through the block admits it (listed {sorted(tool_s)})\n{g.text}")
        if not tool_s <= set(range(1, 17)) or not tool_i <= set(range(0, 16)):
            raise Violation("out-of-range", f"block at line {line}: sizes {sorted(tool_s)} indices {sorted(tool_i)}")
        for i in tool_i:
            if not any(s > i for s in tool_s):
                raise Violation("index-without-larger-size", f"block at line {line}: index {i} listed, sizes {sorted(tool_s)}\n{g.text}")
            if bi not in idx_ci[i]:
                raise Violation("index-listed-but-excluded", f"block at line {line}: GroupIndex={i} is listed but no accepting path through the block admits it\n{g.text}")
        for i in range(0, 16):
            if i in tool_i:
                continue
            # lower bound: some size s > i with the pair admitted on one path
            for s in range(i + 1, 17):
                if bi in size_cs[s]:
                    cs, _ = lit.walks({"GroupSize": s, "GroupIndex": i}) if joint_needed else (size_cs[s], None)
                    if bi in cs:
                        raise Violation("index-not-listed", f"block at line {line}: an accepting path admits (GroupSize={s}, GroupIndex={i}), indices listed {sorted(tool_i)}\n{g.text}")
                    if not joint_needed:
                        break
    return {"nontrivial": _nontrivial(case, g), "key": case_hash(g.text), "features": case.get("features", [])}


def components(tier, disabled):
    q = tier == "quick"
    from vf.rcfg import RCFG

    return {
        "sound": {"strategy": semantic_program(profile="modelled", disabled=disabled, max_stmts=(12 if q else 18), focus=FIELDS + ["Fee", "RekeyTo"]),
                  "check": check_sound, "examples": 2500 if q else 120000, "sample": lambda c, i: RCFG(c).text},
        "exact": {"strategy": semantic_program(profile="direct", disabled=disabled, max_stmts=(12 if q else 18), focus=FIELDS),
                  "check": check_exact, "examples": 2500 if q else 120000, "sample": lambda c, i: RCFG(c).text},
    }
