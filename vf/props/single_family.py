"""The finite family of *single direct checks*: one comparison of one governed field with one constant
(every operator, either operand order, plain or under `!`), consumed by assert / return / bz / bnz, nothing else
in the program. Enumerated exhaustively by C01 (R-AVM decides whether a dangerous transaction is approved:
a witness obliges the detector to report) and C03 (R-LIT decides that none is: the detector must stay silent),
so that on this family the verdict is pinned from both sides for every constant, including the boundary
values a random draw meets rarely (Fee 272000 / 272001, GroupSize 15 / 16 / 17, enum values 0 and 7)."""
from __future__ import annotations

from typing import List

from vf.gen_sem import ANY_NAMES, FEE_CONSTS, LITERALS, OC_NAMES, TYPE_NAMES, Cfg, finalize_mode, lower_program

_CACHE: dict = {}

ORD = ["==", "!=", "<", "<=", ">", ">="]
EQ = ["==", "!="]


def _int(v, sp=None, via="int"):
    return ["int", v, str(v) if sp is None else sp, via]


def _field_table():
    """(field, mode, operators, constants, detectors whose verdict the check can decide)"""
    addr_consts = [["addr", "ZERO", "global"], ["addr", "ZERO", "addr"], ["addr", LITERALS[0], "addr"]]
    rows = []
    rows.append(("Fee", "lsig", ORD, [_int(c) for c in FEE_CONSTS] + [_int(272001, "0x42681"), _int(1, "pay")], ["missing-fee-check"]))
    for f, det in (("RekeyTo", "rekey-to"), ("CloseRemainderTo", "can-close-account"), ("AssetCloseTo", "can-close-asset")):
        rows.append((f, "lsig", EQ, addr_consts, [det]))
    rows.append(("Sender", "app", EQ, addr_consts + [["addr", "CREATOR", "global"]], ["unprotected-updatable", "unprotected-deletable"]))
    gs = [_int(c) for c in range(0, 18)] + [_int(16, "0x10"), _int(16, "020"), _int(1, "pay"), _int(4, "axfer")]
    rows.append(("GroupSize", "lsig", ORD, gs, ["group-size-check"]))
    ty = [_int(c) for c in range(0, 8)] + [_int(v, n) for v, n in TYPE_NAMES.items()]
    rows.append(("TypeEnum", "lsig", EQ, ty, ["can-close-account", "can-close-asset"]))
    rows.append(("TypeEnum", "app", EQ, ty, ["is-updatable", "is-deletable"]))
    oc = [_int(c) for c in range(0, 7)] + [_int(v, n) for v, n in OC_NAMES.items()]
    rows.append(("OnCompletion", "app", EQ, oc, ["is-updatable", "is-deletable", "unprotected-updatable", "unprotected-deletable"]))
    rows.append(("ApplicationID", "app", EQ, [_int(0), _int(77)], ["is-updatable", "is-deletable"]))
    return rows


def single_cases() -> List[dict]:
    if "cases" in _CACHE:
        return _CACHE["cases"]
    out = []
    for field, mode, ops, consts, dets in _field_table():
        if field == "GroupSize":
            rd = ["read", {"kind": "global", "field": "GroupSize"}]
        else:
            rd = ["read", {"kind": "txn", "field": field}]
        for c in consts:
            for op in ops:
                for left in (False, True):
                    for neg in (False, True):
                        for consumer in ("assert", "return", "bz", "bnz"):
                            cmp_ = ["cmp", op, c, rd] if left else ["cmp", op, rd, c]
                            cnd = ["not", cmp_] if neg else cmp_
                            main = []
                            if field == "GroupSize":
                                # the execution reads another member by absolute index (the detector's other condition)
                                main.append(["assert", ["cmp", ">=", ["read", {"kind": "gtxn", "field": "Amount", "idx": 0}], _int(0)]])
                            if consumer == "assert":
                                main.append(["assert", cnd])
                            elif consumer == "return":
                                main.append(["return", cnd, 0])
                            elif consumer == "bz":
                                main.append(["if", cnd, [], [["err"]], "bz"])
                            else:
                                main.append(["if", cnd, [], [["err"]], "bnz"])
                            # bz: `c; bz rej; b end; rej: err; end:` continues iff true; bnz: `c; bnz end; err; end:` too
                            ast = {"version": 6, "mode": mode, "main": main, "subs": {}, "subs_first": False, "end": 0,
                                   "intcblock": 0, "coalesce": False}
                            prog = lower_program(ast, Cfg("direct", ()))
                            finalize_mode(prog)
                            sp = c[2] if c[0] == "int" else (c[1] if c[2] == "addr" else f"global:{c[1]}")
                            prog["desc"] = f"{mode}: {'!' if neg else ''}({sp} {op} {field})" if left else f"{mode}: {'!' if neg else ''}({field} {op} {sp})"
                            prog["desc"] += f" -> {consumer}"
                            prog["detectors"] = dets
                            prog["nt"] = left or neg or op in ("<", ">", ">=", "!=") or (c[0] == "int" and not c[2].isdigit())
                            out.append(prog)
    _CACHE["cases"] = out
    return out


_ = ANY_NAMES  # (named spellings of plain integers are part of the constant lists above)
