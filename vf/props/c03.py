"""C03 - no report when every accepting path directly excludes the dangerous value."""
from __future__ import annotations

from vf import adapter
from vf.core import Violation, case_hash
from vf.gen_sem import semantic_program
from vf.props.common_sem import Analysed
from vf.props.detectors_ref import DANGER, GOVERNED_FIELDS, lit_valuations
from vf.rcfg import RCFG
from vf.rlit import Lit

RULE = (
    "G2 direct-check programs (every condition computed in the block that consumes it by assert/bz/bnz/return; "
    "governed fields meet constants only; loops, shared and nested subroutines, no recursion; logic-sig and "
    "application flavour). R-LIT decides per detector whether an accepting walk (matched calls/returns) exists "
    "when comparisons of the governed fields are read literally (two-field detectors: one field at a time, the "
    "other one free; protected when one field excludes the dangerous value on its own) and every other "
    "condition is free; group-size-check: a walk under "
    "GroupSize=16 through a block with an absolute-index read. No such walk => the detector must report no "
    "path. Components: lsig / app (own `txn F` checks), pinned (first statement asserts GroupIndex == i, governed "
    "checks spelled gtxn i F: a read through i is the own field), allslots (every governed comparison repeated "
    "on gtxn 0..15 F: excluded when excluded for every own position; GroupIndex checks stay free). "
    "single: the finite family of single direct checks (one comparison of one governed field with one constant, all "
    "operators / operand orders / negation / consumers / constants) enumerated exhaustively. "
    "Protected and unprotected programs are both generated and counted. Non-trivial (per program x "
    "detector) = R-LIT says protected, the program checks a governed field of the detector, and the protecting "
    "check sits outside the entry block, under a connective/negation, or has the constant on the left; distinct "
    "by (source, detector)."
)
ASSUMPTIONS = ["R-LIT (vf/rlit.py) with the generator's condition annotations is the reference"]


def lit_protected(lit: Lit, det: str, pin=None, allslots=False) -> bool:
    alts = lit_valuations(det, lit.g)
    if det == "group-size-check":
        for alt in alts:
            cs, _ = lit.walks(alt[0])
            if any(lit.abs_read_block[b] for b in cs):
                return False
        return True
    if pin is not None:
        # pinned component: the first statement asserts `txn GroupIndex == pin`, so a read through that very
        # absolute index is a read of the governed transaction's own field
        own = [pin]
    elif allslots:
        # all-slots component: whatever position i the governed transaction has, `gtxn i F` is its own field;
        # the dangerous value is excluded when it is excluded for every i (GroupIndex checks stay free)
        own = list(range(16))
    else:
        own = [None]
    for i in own:
        for alt in alts:
            vals = alt if i is None else [dict(v, __own_index__=i) for v in alt]
            # two-field detectors: the fields are read one at a time (the other one free, like every other
            # condition); the dangerous value is excluded when one of the fields excludes it on its own
            if all(lit.walks(v)[0] for v in vals):
                return False
    return True


def check(case):
    an = Analysed(case)
    g = an.g
    lit = Lit(g, case["items"])
    names = list(DANGER)
    try:
        res = adapter.run_detectors(an.tealer, names)
    except adapter.TealerCrash as e:
        raise Violation("detector-crash", f"{e}\n{g.text}")
    used = lit.block_fields()
    feats = set(case.get("features", []))
    nt_keys = []
    counters = {"protected_pairs": 0, "unprotected_pairs": 0}
    first_block_end = g.blocks[0][-1]
    checks_outside_entry = any(i > first_block_end for i in lit.ann if g.seq[i].op in ("assert", "bz", "bnz", "return") and lit.ann[i][0] not in ("true", "false"))
    for det in names:
        checks_field = bool(used & set(GOVERNED_FIELDS[det]))
        prot = lit_protected(lit, det, case.get("pin"), bool(case.get("allslots")))
        if prot:
            if checks_field:
                counters["protected_pairs"] += 1
            if res[det].paths:
                p = res[det].paths[0]
                raise Violation("reported-although-excluded", f"{det}: reading the checks literally no accepting execution carries the dangerous value, yet path {' -> '.join(str(b.idx) for b in p)} (lines {[b.entry_instr.line for b in p]}) is reported\n{g.text}", {"detector": det})
            if checks_field and (checks_outside_entry or {"and", "or", "not", "const_left"} & feats):
                nt_keys.append(case_hash([g.text, det]))
        elif checks_field:
            counters["unprotected_pairs"] += 1
    return {"nontrivial_keys": nt_keys, "features": sorted(feats), "counters": counters, "evaluations": len(names)}


def check_single(case):
    """single direct checks (exhaustive family): protected by the literal reading => the detector is silent"""
    an = Analysed(case)
    g = an.g
    lit = Lit(g, case["items"])
    names = case["detectors"]
    try:
        res = adapter.run_detectors(an.tealer, names)
    except adapter.TealerCrash as e:
        raise Violation("detector-crash", f"{e}\n{g.text}")
    counters = {"protected_pairs": 0, "unprotected_pairs": 0}
    for det in names:
        if lit_protected(lit, det):
            counters["protected_pairs"] += 1
            if res[det].paths:
                p = res[det].paths[0]
                raise Violation("reported-although-excluded", f"{det}: single check {case['desc']} excludes the dangerous value, yet path {' -> '.join(str(b.idx) for b in p)} is reported\n{g.text}", {"detector": det})
        else:
            counters["unprotected_pairs"] += 1
    return {"nontrivial": case["nt"] and counters["protected_pairs"] > 0, "key": case_hash(g.text), "features": [case["desc"].split(":")[0]], "counters": counters, "evaluations": len(names)}


def components(tier, disabled):
    q = tier == "quick"
    from vf.props.single_family import single_cases

    return {
        "single": {"enumerate": single_cases, "check": check_single, "exhaustive": True, "shards": 16, "sample": lambda c, i: c["desc"]},
        "lsig": {"strategy": semantic_program(profile="direct", disabled=disabled, max_stmts=(12 if q else 18), mode="lsig"),
                 "check": check, "examples": 3000 if q else 60000, "sample": lambda c, i: RCFG(c).text},
        "app": {"strategy": semantic_program(profile="direct", disabled=disabled, max_stmts=(12 if q else 18), mode="app"),
                "check": check, "examples": 2400 if q else 40000, "sample": lambda c, i: RCFG(c).text},
        # own position asserted by the first statement, governed fields read as `gtxn i F` / `int i; gtxns F`
        "pinned": {"strategy": semantic_program(profile="direct", disabled=disabled, max_stmts=(10 if q else 16), pinned=True),
                   "check": check, "examples": 1600 if q else 30000, "sample": lambda c, i: RCFG(c).text},
        # a governed field is compared on every group position (`gtxn 0 F ... gtxn 15 F`), own position unknown
        "allslots": {"strategy": semantic_program(profile="direct", disabled=disabled, max_stmts=(6 if q else 9), allslots=True),
                     "check": check, "examples": 800 if q else 20000, "sample": lambda c, i: RCFG(c).text},
    }
