"""C04 - the CFG is well-formed and over-approximates real control flow."""
from __future__ import annotations

from hypothesis import strategies as st

from vf import adapter, ravm
from vf.core import Violation, case_hash
from vf.gen_layout import layout_program
from vf.rcfg import RCFG, ENDS_BLOCK

RULE = (
    "G1 layout generator (1-10 slots per region, 0-3 subroutines, structured and unstructured, versions 2-8; "
    "terminators fall/b/bz/bnz/switch/match/callsub/retsub/return/err; dead code, back edges, branch to next "
    "line, branch/call as last instruction, back-to-back labels, label at end). structure: validity predicates "
    "on parse_teal(src).bbs against R-CFG (partition of retained instructions, single entry/exit, mirrored "
    "next/prev, successor sets, bz/bnz order). walk: every R-AVM execution (lazy valuation search, accepted and "
    "rejected) must be a walk in tealer's graph with callsub->callee entry and retsub->block after the matching "
    "callsub. dispatch: Function.blocks of the function built for a drawn root-to-block dispatch path: bz/bnz "
    "successors positionally [fall-through, target] with off-path ones replaced in place by an error stand-in, "
    "mirrored lists, contract graph untouched, and - also after a second function of the same contract has been built on the same parse - "
    "the global successors of the function's retsub blocks are exactly the blocks after the function's own call sites (non-trivial = the path follows a jump edge). Non-trivial = program has dead code that branches/calls into live code, a back edge, or a branch "
    "to the next line; distinct by rendered source."
)
ASSUMPTIONS = ["R-CFG (vf/rcfg.py) and R-AVM (vf/ravm.py) are the references; generated programs are assembler-valid by construction"]

NT = {"dead_code_into_live", "dead_block_two_live_successors", "dead_callsite", "back_edge", "branch_to_next_line"}


def check_blocks(g: RCFG, blocks, expected_lines, what: str):
    """validity predicates for a list of tealer blocks against R-CFG"""
    blocks = sorted(blocks, key=lambda b: b.entry_instr.line)
    bset = set(blocks)
    lines = []
    first_of = {}
    for b in blocks:
        if not b.instructions:
            raise Violation("empty-block", f"{what}: block B{b.idx} has no instructions")
        first_of[b.instructions[0].line] = b
        for ins in b.instructions:
            lines.append(ins.line)
    if lines != sorted(expected_lines):
        missing = sorted(set(expected_lines) - set(lines))
        extra = sorted(set(lines) - set(expected_lines))
        raise Violation("partition", f"{what}: blocks do not partition the retained instructions in source order; missing lines {missing}, extra/duplicated {extra or [l for l in lines if lines.count(l) > 1][:5]}")
    for b in blocks:
        ls = [i.line for i in b.instructions]
        for k, ln in enumerate(ls):
            nd = g.by_line[ln]
            if str(b.instructions[k]).split() != nd.text.split() and nd.op != "#pragma":
                raise Violation("instruction-text", f"{what}: line {ln} is {nd.text!r} but block holds {str(b.instructions[k])!r}")
            if k > 0:
                if nd.idx != g.by_line[ls[k - 1]].idx + 1:
                    raise Violation("not-contiguous", f"{what}: block at line {ls[0]} jumps from line {ls[k-1]} to {ln}")
                if nd.idx in g.targeted:
                    raise Violation("entered-in-the-middle", f"{what}: targeted label at line {ln} is inside block starting at {ls[0]}")
            if k < len(ls) - 1 and nd.op in ENDS_BLOCK:
                raise Violation("left-in-the-middle", f"{what}: {nd.text!r} at line {ln} is not the last instruction of its block")
        for x in b.next:
            if x not in bset:
                raise Violation("next-outside-graph", f"{what}: block at line {ls[0]} has a successor (line {x.entry_instr.line}) outside the graph")
        for x in b.prev:
            if x not in bset:
                raise Violation("prev-outside-graph", f"{what}: block at line {ls[0]} has a predecessor (line {x.entry_instr.line}) outside the graph")
        if len(set(map(id, b.next))) != len(b.next):
            raise Violation("duplicate-successor", f"{what}: block at line {ls[0]} lists a successor twice")
        # successors
        last = g.by_line[ls[-1]]
        exp = g.succ_lines(ls[-1])
        for l in exp:
            if l not in first_of:
                raise Violation("successor-not-block-entry", f"{what}: successor line {l} of line {ls[-1]} is not the first instruction of a block")
        got = [x.entry_instr.line for x in b.next]
        if last.op in ("bz", "bnz"):
            if got != exp:
                raise Violation("branch-successor-order", f"{what}: {last.text!r} at line {ls[-1]}: successors {got}, expected [fall-through, target] = {exp}")
        elif sorted(got) != sorted(exp):
            raise Violation("successor-set", f"{what}: {last.text!r} at line {ls[-1]}: successors {got}, expected {exp}")
    for b in blocks:
        for x in bset:
            if b.next.count(x) != x.prev.count(b):
                raise Violation("next-prev-not-mirrored", f"{what}: edge {b.entry_instr.line}->{x.entry_instr.line}: next has it {b.next.count(x)}x, prev {x.prev.count(b)}x")


def check_structure(case):
    g = RCFG(case)
    feats = g.features()
    try:
        teal = adapter.parse(g.text)
    except adapter.TealerCrash as e:
        raise Violation("parse-crash", f"{e}")
    check_blocks(g, teal.bbs, g.retained_lines(), "contract")
    if case.get("structured"):
        from tealer.teal.parse_functions import construct_function

        try:
            with adapter.captured():
                fn = construct_function(teal, ["B0"], "f")
        except BaseException as e:  # pylint: disable=broad-except
            raise Violation("function-crash", f"construct_function raised {type(e).__name__}: {e}")
        finally:
            adapter.clear_caches()
        exp = sorted(g.reach_from(g.seq[0].line, follow_calls=True))
        check_blocks(g, fn.blocks, exp, "function")
        # building the function must not disturb the contract's own graph
        check_blocks(g, teal.bbs, g.retained_lines(), "contract-after-function")
    return {"nontrivial": bool(NT & set(feats)), "key": case_hash(g.text), "features": feats + [f"v{case['version']}", "structured" if case.get("structured") else "unstructured"]}


def check_walk(case):
    g = RCFG(case)
    feats = g.features()
    try:
        teal = adapter.parse(g.text)
    except adapter.TealerCrash as e:
        raise Violation("parse-crash", f"{e}")
    block_at = {}
    for b in teal.bbs:
        for ins in b.instructions:
            block_at[ins.line] = b
    fl = ravm.flavour(g)
    nexec = 0
    nacc = 0
    for env, res in ravm.search(g, ravm.Env("app" if fl == "app" else "lsig"), cap=case.get("cap", 80)):
        nexec += 1
        nacc += bool(res.accepted)
        calls = []
        tr = res.trace
        for p, q in zip(tr, tr[1:]):
            lp, lq = g.seq[p].line, g.seq[q].line
            if lp not in block_at or lq not in block_at:
                raise Violation("executed-instruction-not-in-graph", f"line {lp if lp not in block_at else lq} is executed ({env.describe()}) but belongs to no block")
            bp, bq = block_at[lp], block_at[lq]
            if bp is bq and q == p + 1 and bp.instructions[-1].line != lp:
                continue
            if bp.instructions[-1].line != lp or bq.instructions[0].line != lq:
                raise Violation("walk-leaves-block-in-the-middle", f"execution goes from line {lp} to {lq} ({env.describe()})")
            op = g.seq[p].op
            if op == "callsub":
                try:
                    callee = bp.called_subroutine.entry
                except Exception as e:  # pylint: disable=broad-except
                    raise Violation("callsub-without-callee", f"line {lp}: {e}")
                if callee is not bq:
                    raise Violation("walk-callsub", f"callsub at line {lp} continues at line {lq}, graph says callee entry {callee.entry_instr.line}")
                calls.append(bp)
            elif op == "retsub":
                cs = calls.pop()
                rp = cs.sub_return_point
                if rp is not bq:
                    raise Violation("walk-retsub", f"retsub at line {lp} returns to line {lq}; graph has {rp.entry_instr.line if rp else None} after the callsub at line {cs.instructions[-1].line}")
                # the return step is an edge of the global graph: the tables that span it (and that the cfg
                # export draws: retsub blocks x return points of the called subroutine) must hold both ends,
                # also when the retsub block is shared by several subroutines (one falls through into another)
                sub = cs.called_subroutine
                if not any(x is bp for x in sub.retsub_blocks):
                    raise Violation("walk-retsub-not-a-retsub-block-of-callee", f"retsub at line {lp} ends the activation of {sub.name!r} (called at line {cs.instructions[-1].line}) but is not among its retsub blocks {[x.entry_instr.line for x in sub.retsub_blocks]} ({env.describe()})")
                if not any(x is bq for x in sub.return_point_blocks):
                    raise Violation("walk-return-point-not-listed", f"execution returns from {sub.name!r} to line {lq}, which is not among its return points {[x.entry_instr.line for x in sub.return_point_blocks]}")
            else:
                if bq not in bp.next:
                    raise Violation("walk-edge-missing", f"execution goes from line {lp} ({g.seq[p].text}) to line {lq} but the graph has no such edge ({env.describe()})")
    return {"nontrivial": bool(NT & set(feats)) and nexec > 0, "key": case_hash(g.text), "features": feats,
            "counters": {"executions": nexec, "accepted_executions": nacc}}


@st.composite
def dispatch_case(draw):
    """structured layout program + a root-to-block path of its main graph (the dispatch path of a function)"""
    from vf.props.c12 import main_paths

    p = draw(layout_program(structured=True))
    g = RCFG(p)
    paths = main_paths(g)
    longer = [x for x in paths if len(x) >= 2]
    p = dict(p)
    p["path"] = draw(st.sampled_from(longer)) if longer and draw(st.integers(0, 4)) else draw(st.sampled_from(paths))
    # a second function of the same contract, built after the first one on the same parse (or not at all)
    p["other"] = draw(st.sampled_from(paths)) if draw(st.booleans()) else None
    return p


def check_dispatch(case):
    """Function.blocks of a function cut out by a dispatch path: an off-path successor is replaced by an error
    stand-in *in its position* (bz/bnz: [fall-through, target]), lists mirrored, nothing else changes"""
    from tealer.teal.parse_functions import construct_function

    g = RCFG(case)
    try:
        teal = adapter.parse(g.text)
    except adapter.TealerCrash as e:
        raise Violation("parse-crash", f"{e}")
    idx_of = {b.entry_instr.line: b.idx for b in teal.bbs}
    path = case["path"]
    try:
        with adapter.captured():
            fn = construct_function(teal, [f"B{idx_of[l]}" for l in path], "f")
    except BaseException as e:  # pylint: disable=broad-except
        raise Violation("function-crash", f"construct_function({path}) raised {type(e).__name__}: {e}\n{g.text}")
    finally:
        adapter.clear_caches()

    if case.get("other"):
        try:
            with adapter.captured():
                construct_function(teal, [f"B{idx_of[l]}" for l in case["other"]], "g")
        except BaseException as e:  # pylint: disable=broad-except
            raise Violation("function-crash", f"construct_function({case['other']}) after {path} raised {type(e).__name__}: {e}\n{g.text}")
        finally:
            adapter.clear_caches()

    def is_standin(b):
        return len(b.instructions) == 1 and type(b.instructions[0]).__name__ == "TealerCustomErrInstruction"

    where = f"dispatch path {path}\n{g.text}"
    real = [b for b in fn.blocks if not is_standin(b)]
    first = {b.entry_instr.line: b for b in real}
    n_standins = 0
    for b in real:
        ls = [i.line for i in b.instructions]
        last = g.by_line[ls[-1]]
        exp = g.succ_lines(ls[-1])
        kpos = path.index(ls[0]) if ls[0] in path else None
        on_path = kpos is not None and kpos < len(path) - 1
        if len(b.next) != len(exp) and last.op in ("bz", "bnz", "b"):
            raise Violation("successor-set", f"{last.text!r} at line {ls[-1]}: {len(b.next)} successors, expected {exp}: {where}")
        if last.op in ("bz", "bnz"):
            for j, x in enumerate(b.next):
                if is_standin(x):
                    n_standins += 1
                    if not on_path or exp[j] == path[kpos + 1]:
                        raise Violation("standin-for-on-path-successor", f"{last.text!r} at line {ls[-1]}: successor {j} (line {exp[j]}) is replaced by an error block: {where}")
                elif x.entry_instr.line != exp[j]:
                    got = ["ERR" if is_standin(y) else y.entry_instr.line for y in b.next]
                    raise Violation("branch-successor-order", f"function: {last.text!r} at line {ls[-1]}: successors {got}, expected [fall-through, target] = {exp} (off-path ones replaced in place): {where}")
        for x in b.next:
            if b.next.count(x) != x.prev.count(b):
                raise Violation("next-prev-not-mirrored", f"function: edge {ls[0]}->{'ERR' if is_standin(x) else x.entry_instr.line}: next {b.next.count(x)}x, prev {x.prev.count(b)}x: {where}")
            if not is_standin(x) and first.get(x.entry_instr.line) is not x:
                raise Violation("next-outside-graph", f"function: successor of line {ls[0]} at line {x.entry_instr.line} is not a block of the function: {where}")
    # global successors of the function's retsub blocks: exactly the blocks following the function's own call
    # sites of that subroutine (also after another function of the contract has been built)
    from tealer.utils.analyses import next_blocks_global

    fblocks = list(fn.blocks)
    for sub in teal.subroutines.values():
        sites = [b for b in fblocks if b.is_callsub_block and b.called_subroutine is sub]
        if not sites:
            continue
        want_rps = [b.sub_return_point for b in sites if b.sub_return_point is not None]
        for rb in sub.retsub_blocks:
            if not any(rb is x for x in fblocks):
                continue
            got = next_blocks_global(fn, rb)
            if sorted(map(id, got)) != sorted(map(id, want_rps)):
                raise Violation("function-retsub-successors", f"function for {path}{' (then ' + str(case['other']) + ' built)' if case.get('other') else ''}: retsub block at line {rb.entry_instr.line} of {sub.name!r} continues at lines {sorted(x.entry_instr.line for x in got)} (members of the function: {[any(x is y for y in fblocks) for x in got]}), the function's call sites resume at {sorted(x.entry_instr.line for x in want_rps)}\n{g.text}")
    # the contract's own graph is untouched
    check_blocks(g, teal.bbs, g.retained_lines(), "contract-after-function")
    jump_step = any(
        g.by_line[[i.line for i in first[l].instructions][-1]].op in ("bz", "bnz") and
        g.succ_lines([i.line for i in first[l].instructions][-1])[-1] == path[k + 1] and
        len(g.succ_lines([i.line for i in first[l].instructions][-1])) == 2
        for k, l in enumerate(path[:-1]) if l in first)
    return {"nontrivial": jump_step, "key": case_hash([g.text, path]), "features": g.features() + [f"pathlen{len(path)}"] + (["path_follows_jump_edge"] if jump_step else []),
            "counters": {"standins": n_standins}}


def components(tier, disabled):
    q = tier == "quick"
    both = st.one_of(layout_program(structured=True), layout_program(structured=False))
    return {
        "structure": {"strategy": both, "check": check_structure, "examples": 6000 if q else 300000,
                      "sample": lambda c, i: RCFG(c).text},
        "walk": {"strategy": both, "check": check_walk, "examples": 2500 if q else 100000,
                 "sample": lambda c, i: RCFG(c).text},
        "dispatch": {"strategy": dispatch_case(), "check": check_dispatch, "examples": 2500 if q else 100000,
                     "sample": lambda c, i: {"path": c["path"], "source": RCFG(c).text}},
    }
