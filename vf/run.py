"""CLI: python -m vf.run <PID> [--tier quick|thorough] [--seed N]"""
import argparse
import os
import sys


def main() -> int:
    ap = argparse.ArgumentParser()
    ap.add_argument("pid")
    ap.add_argument("--tier", default=os.environ.get("VERIF_TIER", "quick"))
    ap.add_argument("--seed", type=int, default=None)
    args = ap.parse_args()
    seed = args.seed
    if seed is None:
        try:
            seed = int(os.environ.get("VERIF_SEED", "1"))
        except ValueError:
            seed = 1
    from vf import env  # noqa: F401  (sets sys.path so /repo's working tree is imported)
    from vf.core import main_run

    try:
        return main_run(args.pid.upper(), args.tier, seed)
    except Exception as e:  # pylint: disable=broad-except
        import traceback

        print(f"HARNESS-ERROR {args.pid}: {e}\n{traceback.format_exc()}", file=sys.stderr)
        return 2


if __name__ == "__main__":
    sys.exit(main())
