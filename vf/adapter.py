"""Tealer adapter: everything the checks need from tealer, returned as plain data keyed by
source line numbers."""
from __future__ import annotations

import contextlib
import io
import os
import sys
from typing import Any, Dict, List, Optional, Tuple

from vf import env as _env  # noqa: F401


class TealerCrash(Exception):
    """tealer raised an internal error / exited on an input the property says it must handle"""

    def __init__(self, stage: str, exc: BaseException, output: str = ""):
        super().__init__(f"{stage}: {type(exc).__name__}: {exc}")
        self.stage = stage
        self.exc = exc
        self.output = output


@contextlib.contextmanager
def captured():
    out, err = io.StringIO(), io.StringIO()
    old = sys.stdout, sys.stderr
    sys.stdout, sys.stderr = out, err
    try:
        yield out, err
    finally:
        sys.stdout, sys.stderr = old


def clear_caches() -> None:
    from tealer.analyses.utils.stack_ast_builder import construct_stack_ast, compute_equations

    construct_stack_ast.cache_clear()
    compute_equations.cache_clear()


def parse(src: str, name: str = "c"):
    from tealer.teal.parse_teal import parse_teal

    with captured() as (out, err):
        try:
            teal = parse_teal(src, name)
        except BaseException as e:  # parse_teal calls sys.exit(1) on ParseError
            raise TealerCrash("parse", e, out.getvalue() + err.getvalue())
    teal._vf_stderr = err.getvalue()  # type: ignore[attr-defined]
    teal._vf_stdout = out.getvalue()  # type: ignore[attr-defined]
    return teal


def init_single(src: str, name: str = "c"):
    """Tealer object as `tealer detect --contracts` builds it."""
    from tealer.utils.command_line.common import init_tealer_from_single_contract

    with captured() as (out, err):
        try:
            t = init_tealer_from_single_contract(src, name)
        except BaseException as e:
            raise TealerCrash("init", e, out.getvalue() + err.getvalue())
        finally:
            clear_caches()
    return t


def block_line(bb) -> int:
    return bb.entry_instr.line


def block_lines(bb) -> List[int]:
    return [i.line for i in bb.instructions]


DETECTOR_NAMES = [
    "rekey-to", "can-close-account", "can-close-asset", "missing-fee-check", "is-updatable",
    "is-deletable", "unprotected-updatable", "unprotected-deletable", "group-size-check",
]
# detectors that list instruction pairs (InstructionsOutput, one output per contract that has a finding)
OPT_DETECTOR_NAMES = ["constant-gtxn", "self-access", "sender-access"]



def detector_classes() -> Dict[str, Any]:
    from tealer.utils.command_line.common import get_detectors_and_printers

    dets, _ = get_detectors_and_printers()
    return {d.NAME: d for d in dets}


def run_detectors(tealer, names: List[str]) -> Dict[str, Any]:
    """-> name -> ExecutionPaths (single-contract mode)"""
    classes = detector_classes()
    out = {}
    with captured():
        for n in names:
            tealer.register_detector(classes[n])
        try:
            results = tealer.run_detectors()
        except BaseException as e:
            raise TealerCrash("detect", e)
        finally:
            clear_caches()
    for det, res in zip(tealer.detectors[-len(names):], results[-len(names):]):
        assert len(res) == 1, res
        out[det.NAME] = res[0]
    return out


def addr_info(v) -> dict:
    return {"any": bool(v.any_addr), "no": bool(v.no_addr), "poss": sorted(v.possible_addr)}


def ctx_plain(ctx, tail: bool = False) -> dict:
    d = {
        "sizes": sorted(ctx.group_sizes),
        "indices": sorted(ctx.group_indices),
        "types": sorted(str(t) for t in ctx.transaction_types),
        "rekeyto": addr_info(ctx.rekeyto),
        "closeto": addr_info(ctx.closeto),
        "assetcloseto": addr_info(ctx.assetcloseto),
        "sender": addr_info(ctx.sender),
        "max_fee": ctx.max_fee,
        "max_fee_unknown": bool(ctx.max_fee_unknown),
    }
    return d


def function_contexts(function, deep: bool = False) -> Dict[int, dict]:
    """entry line of block -> plain context (deep: with gtxn/absolute/relative sub-contexts)"""
    out = {}
    for b in function.blocks:
        ctx = function.transaction_context(b)
        d = ctx_plain(ctx)
        if deep:
            d["gtxn"] = [ctx_plain(ctx.gtxn_context(i), True) for i in range(16)]
            d["abs"] = [ctx_plain(ctx.absolute_context(i), True) for i in range(16)]
            d["rel"] = {str(k): ctx_plain(ctx.relative_context(k), True) for k in range(-15, 16) if k != 0}
        out[block_line(b)] = d
    return out


def single_function(tealer):
    teal = tealer.contracts_list[0]
    return teal, teal.functions_list[0]
