"""G2 - semantic generator: typed mini-AST, lowered to TEAL with random placement choices.

case = {"version", "items", "mode", "features": [...]}  (items carry annotations: the condition each
assert / bz / bnz / return consumes, as generator-side truth for R-LIT)

Condition AST:   ["cmp", op, A, B] | ["and", c, c] | ["or", c, c] | ["not", c] | ["opaque", field, k, op]
                 | ["true"] | ["false"]
operand A/B:     ["read", {...}] | ["int", value, spelling] | ["addr", "ZERO"|"CREATOR"|literal, form]
"""
from __future__ import annotations

from typing import Any, Dict, List, Optional

from hypothesis import strategies as st

from vf.ir import I, L
from vf.linegram import ADDRS, spell_int

MAXU64 = (1 << 64) - 1
ZERO_LIT = ADDRS[0]
LITERALS = ADDRS[1:4]
# a valid, non-zero address (public key 0x...02540be400) that the code under test keeps as its constant for
# "the zero address" (tealer/utils/algorand_constants.py); part of the literal pool like a fuzzing dictionary entry
ODD_LITERAL = "AAAAAAAAAAAAAAAAAAAAAAAAAAAAAAAAAAAAAAAAAAAAEVAL4QAJS7JHB4"
CMP_OPS = ["==", "!=", "<", "<=", ">", ">="]
ADDR_FIELDS = ["RekeyTo", "CloseRemainderTo", "AssetCloseTo", "Sender"]
PINNED_FIELDS = ADDR_FIELDS + ["Fee", "TypeEnum", "OnCompletion", "ApplicationID"]
OPAQUE_INT = ["FirstValid", "Amount", "LastValid", "AssetAmount"]
TYPE_NAMES = {1: "pay", 2: "keyreg", 3: "acfg", 4: "axfer", 5: "afrz", 6: "appl"}
OC_NAMES = {0: "NoOp", 1: "OptIn", 2: "CloseOut", 3: "ClearState", 4: "UpdateApplication", 5: "DeleteApplication"}

# named integer constants of the assembler, usable wherever an integer literal is (`int axfer` = `int 4`)
ANY_NAMES = {0: ["NoOp"], 1: ["pay", "OptIn"], 2: ["keyreg", "CloseOut"], 3: ["acfg", "ClearState"], 4: ["axfer", "UpdateApplication"],
             5: ["afrz", "DeleteApplication"], 6: ["appl"]}
FEE_CONSTS = [0, 1, 999, 1000, 1001, 2000, 271999, 272000, 272001, 1000000, MAXU64 - 1, MAXU64]
GROUP_CONSTS = list(range(0, 18))


class Cfg:
    """generation switches; `off` = set of feature names excluded by construction"""

    def __init__(self, profile: str, off, focus: Optional[List[str]] = None, mode: Optional[str] = None):
        self.group_heavy = profile.endswith("+group")
        profile = profile.split("+")[0]
        self.profile = profile  # 'direct' | 'modelled'
        self.off = set(off or [])
        self.focus = focus  # governed fields to concentrate on
        self.mode = mode
        self.pin: Optional[int] = None  # pinned mode: own position asserted first, governed fields read through it
        self.allslots = False  # all-slots mode: a governed field is checked on every group position through gtxn
        self.xflag = False  # direct profile only: allow `xconn` statements (operands of a connective from other blocks)
        self.shared: Dict[str, Any] = {"uid": 0, "fee_above": 0}  # per-program counters shared with derived Cfg objects

    def derive(self, extra_off):
        c = Cfg(self.profile + ("+group" if self.group_heavy else ""), self.off | set(extra_off), self.focus, self.mode)
        c.pin, c.allslots, c.xflag, c.shared = self.pin, self.allslots, self.xflag, self.shared
        return c

    def on(self, feat: str) -> bool:
        return feat not in self.off


# ------------------------------------------------------------------ operands & conditions
@st.composite
def int_const(draw, values, version, allow_named=None, any_named=False):
    v = draw(st.sampled_from(values))
    style = draw(st.sampled_from([0, 0, 0, 1, 2]))
    sp = spell_int(v, style)
    if allow_named and v in allow_named and draw(st.booleans()):
        sp = allow_named[v]
    elif any_named and v in ANY_NAMES and draw(st.sampled_from([0, 0, 1])):
        sp = draw(st.sampled_from(ANY_NAMES[v]))
    via = draw(st.sampled_from(["int", "int", "pushint"] if version >= 3 else ["int"]))
    if not sp[:1].isdigit():
        via = "int"  # named constants belong to the `int` pseudo-op; `pushint` takes a number
    return ["int", v, sp, via]


@st.composite
def addr_const(draw, cfg: Cfg, mode: str, version: int):
    k = draw(st.integers(0, 9))
    if k <= 4:
        if draw(st.booleans()):
            return ["addr", "ZERO", "global"]
        return ["addr", "ZERO", "addr"]
    if k <= 7 or mode != "app" or version < 3:
        if cfg.on("addr_literal_mistaken_for_zero") and draw(st.integers(0, 5)) == 0:
            return ["addr", ODD_LITERAL, "addr"]
        return ["addr", draw(st.sampled_from(LITERALS)), "addr"]
    return ["addr", "CREATOR", "global"]


@st.composite
def read_spec(draw, cfg: Cfg, field: str, version: int, allow_group=True):
    """how a field of the *governed/other* transaction is read"""
    if cfg.pin is not None and field in PINNED_FIELDS:
        kind = draw(st.sampled_from(["gtxn", "gtxns"] if version >= 3 else ["gtxn"]))
        return ["read", {"kind": kind, "field": field, "idx": cfg.pin}]
    kinds = ["txn"] * 6
    if field in ("OnCompletion", "ApplicationID") and not cfg.on("oc_appid_checks_on_group_members"):
        # known finding (an OnCompletion / ApplicationID check drops the non-application kinds): only own reads
        allow_group = False
    if allow_group and cfg.on("gtxn_reads"):
        kinds += ["gtxn"] * 2
        if version >= 3:
            kinds += ["gtxns", "rel"]
            kinds += ["gtxns_self", "gtxns_gi"]
            if cfg.profile == "modelled":
                kinds += ["rel_split"]
        if cfg.group_heavy:
            kinds = ["txn"] * 2 + ["gtxn"] * 3 + (["gtxns"] * 2 + ["rel"] * 4 + ["gtxns_self"] * 2 + ["gtxns_gi"] if version >= 3 else [])
            if version >= 3 and cfg.profile == "modelled":
                kinds += ["rel_split"]
    kind = draw(st.sampled_from(kinds))
    spec: Dict[str, Any] = {"kind": kind, "field": field}
    if kind in ("gtxn", "gtxns", "gtxns_gi"):
        spec["idx"] = draw(st.sampled_from([0, 0, 1, 1, 2, 3, 15]))
    elif kind == "rel_split":
        # the index computation is spread over two blocks: the tool cannot attribute the read (opaque)
        spec["off"] = draw(st.sampled_from([1, 1, 2, 15]))
        spec["sign"] = draw(st.sampled_from(["+", "-", "-"]))
        spec["order"] = draw(st.integers(0, 1)) if spec["sign"] == "+" else 0
        spec["split"] = draw(st.sampled_from([1, 1, 2]))
    elif kind == "rel":
        spec["off"] = draw(st.sampled_from([1, 1, 2, 3, 15, 0] if cfg.group_heavy else [1, 1, 2, 3, 15]))
        spec["sign"] = draw(st.sampled_from(["+", "+", "-"]))
        spec["order"] = draw(st.integers(0, 1)) if spec["sign"] == "+" else 0
    return ["read", spec]


@st.composite
def atom(draw, cfg: Cfg, mode: str, version: int, fields: List[str], lit_ok: bool = False):
    """one comparison (or opaque atom)"""
    if lit_ok and cfg.on("literal_operands") and not cfg.allslots and draw(st.sampled_from(range(20))) == 0:
        # an integer literal as operand of a connective / as a whole condition (`x || 1`, `x && 0`)
        return ["lit", draw(st.sampled_from([0, 1, 1, 7]))]
    if draw(st.integers(0, 5)) == 0 or not fields:
        f = draw(st.sampled_from(OPAQUE_INT))
        k = draw(st.integers(0, 5))
        if k == 0:
            # arithmetic on a value no analysis tracks
            return ["opaque_arith", f, draw(st.sampled_from([0, 1, 2])), draw(st.sampled_from(["+", "-"])), draw(st.sampled_from([0, 1, 5])), draw(st.sampled_from(CMP_OPS))]
        if k == 1:
            return ["opaque_bytes", draw(st.sampled_from(["Note", "Lease"])), draw(st.sampled_from(['"x"', '""', "0x78", "base64 eA=="])), draw(st.sampled_from(["==", "!="]))]
        return ["opaque", f, draw(st.sampled_from([0, 1, 5, 1000])), draw(st.sampled_from(CMP_OPS))]
    field = draw(st.sampled_from(fields))
    if field in ADDR_FIELDS:
        rd = draw(read_spec(cfg, field, version))
        c = draw(addr_const(cfg, mode, version))
        op = draw(st.sampled_from(["==", "==", "!="]))
    elif field == "Fee":
        if cfg.group_heavy and cfg.on("fee_vs_min_txn_fee") and draw(st.integers(0, 5)) == 0:
            # the transaction's own fee bounded from above by a run-time value (`global MinTxnFee`): the tool's
            # documented heuristic for this transaction; it says nothing about any other group member
            rd = ["read", {"kind": "txn", "field": "Fee"}]
            g_ = ["glob", "MinTxnFee"]
            op = draw(st.sampled_from(["<=", "<", "=="]))
            if draw(st.booleans()):
                return ["cmp", op, rd, g_]
            return ["cmp", {"<=": ">=", "<": ">", "==": "=="}[op], g_, rd]
        rd = draw(read_spec(cfg, field, version))
        # known finding (the fee information is one upper bound: two or more comparisons with constants above
        # the limit can exclude every dangerous fee jointly without the tool noticing): with the feature off a
        # program holds at most ONE Fee comparison whose constant lies above the limit - a single one is
        # represented exactly (each below-limit comparison excludes all dangerous fees or none)
        fee_consts = FEE_CONSTS
        if not cfg.on("fee_constants_above_limit") and cfg.shared["fee_above"] >= 1:
            fee_consts = [c for c in FEE_CONSTS if c <= 272000]
        c = draw(int_const(fee_consts, version, any_named=cfg.on("named_const_for_plain_ints")))
        if c[1] > 272000:
            cfg.shared["fee_above"] += 1
        op = draw(st.sampled_from(CMP_OPS))
    elif field == "GroupSize":
        rd = ["read", {"kind": "global", "field": "GroupSize"}]
        c = draw(int_const(GROUP_CONSTS, version, any_named=cfg.on("named_const_for_plain_ints")))
        op = draw(st.sampled_from(CMP_OPS))
    elif field == "GroupIndex":
        rd = ["read", {"kind": "txn", "field": "GroupIndex"}]
        c = draw(int_const(GROUP_CONSTS[:17], version, any_named=cfg.on("named_const_for_plain_ints")))
        op = draw(st.sampled_from(CMP_OPS))
    elif field == "TypeEnum":
        rd = draw(read_spec(cfg, field, version))
        vals = [1, 1, 4, 4, 6, 6, 2, 3, 5]
        if cfg.on("enum_const_out_of_range"):
            vals += [0, 7]
        c = draw(int_const(vals, version, allow_named=TYPE_NAMES))
        op = draw(st.sampled_from(["==", "==", "!="]))
    elif field == "OnCompletion":
        rd = draw(read_spec(cfg, field, version))
        vals = [0, 0, 4, 4, 5, 5, 1, 2, 3]
        if cfg.on("enum_const_out_of_range"):
            vals += [6]
        c = draw(int_const(vals, version, allow_named=OC_NAMES))
        op = draw(st.sampled_from(["==", "==", "!="]))
    elif field == "ApplicationID":
        rd = draw(read_spec(cfg, field, version))
        k = draw(st.integers(0, 3))
        if k == 0:
            return ["truthy", rd]  # bare `txn ApplicationID` used as a condition
        c = draw(int_const([0, 0, 0, 77], version))
        op = draw(st.sampled_from(["==", "!="]))
    else:
        raise AssertionError(field)
    if cfg.allslots and field in PINNED_FIELDS:
        # the same comparison on the transaction at every position 0..15 (whatever position the governed
        # transaction has, its field is compared): `gtxn 0 F; c; op; gtxn 1 F; c; op; &&; ...`
        left = draw(st.booleans())
        kind = draw(st.sampled_from(["gtxn", "gtxn", "gtxns"] if version >= 3 else ["gtxn"]))
        chain = None
        for i in range(16):
            r_i = ["read", {"kind": kind, "field": field, "idx": i}]
            a_i = ["cmp", op, c, r_i] if left else ["cmp", op, r_i, c]
            chain = a_i if chain is None else ["and", chain, a_i]
        return chain
    if draw(st.booleans()):
        return ["cmp", op, rd, c]
    if field == "GroupIndex" and op in ("<", "<=", ">", ">=") and not cfg.on("const_left_ordered_groupindex"):
        return ["cmp", op, rd, c]
    return ["cmp", op, c, rd]  # constant on the left


@st.composite
def cond(draw, cfg: Cfg, mode: str, version: int, fields: List[str], depth: int = 0):
    if depth == 0 and not cfg.allslots and cfg.on("long_chain") and draw(st.sampled_from(range(90))) == 0:
        # a long chain of conditions under one connective (what `And(c1, ..., cn)` of a contract with many
        # requirements compiles to), left- or right-nested; one or two of them are governed comparisons
        n = draw(st.sampled_from([12, 17, 18, 19, 24]))
        conn = draw(st.sampled_from(["and", "and", "or"]))
        gov = set(draw(st.lists(st.sampled_from([0, 1, 2, n // 2, n - 3, n - 2, n - 1]), min_size=1, max_size=2)))
        ops_ = []
        for i in range(n):
            if i in gov:
                ops_.append(draw(atom(cfg, mode, version, fields)))
            else:
                ops_.append(["opaque", draw(st.sampled_from(OPAQUE_INT)), draw(st.sampled_from([0, 1, 5])), draw(st.sampled_from(CMP_OPS))])
        if draw(st.booleans()):
            tree = ops_[0]
            for o_ in ops_[1:]:
                tree = [conn, tree, o_]
        else:
            tree = ops_[-1]
            for o_ in reversed(ops_[:-1]):
                tree = [conn, o_, tree]
        return ["chain", tree]
    k = draw(st.integers(0, 9))
    if depth >= 3 or k <= 5:
        return draw(atom(cfg, mode, version, fields, lit_ok=depth > 0))
    if k == 6:
        return ["not", draw(cond(cfg, mode, version, fields, depth + 1))]
    a = draw(cond(cfg, mode, version, fields, depth + 1))
    b = draw(cond(cfg, mode, version, fields, depth + 1))
    return ["and" if k <= 8 else "or", a, b]


# ------------------------------------------------------------------ statements
@st.composite
def stmts(draw, cfg: Cfg, mode: str, version: int, fields, subs: List[str], depth: int, budget: List[int], in_sub: Optional[str]):
    out = []
    n = draw(st.integers(0 if depth else 1, 4))
    for _ in range(n):
        if budget[0] <= 0:
            break
        budget[0] -= 1
        kinds = ["assert"] * 4 + ["if"] * 4 + ["pad"]
        if version < 3:
            kinds = ["if"] * 4 + ["pad"] + ["retcheck"]
        if subs:
            kinds += ["call"] * 3
        if depth < 2 and version >= 4:
            kinds += ["while"]
            if cfg.shared.get("loop_bias") and subs:
                kinds += ["while"] * 6
        if version >= 8 and depth < 2:
            kinds += ["switch", "switch"]
        kinds += ["return", "approve", "err", "reject"] if depth > 0 else ["return"]
        if in_sub is not None and cfg.on("loop_to_sub_entry"):
            kinds += ["spin"]
        if version >= 3 and cfg.on("gtxn_reads") and cfg.on("pinidx_stmt") and any(f in ADDR_FIELDS or f == "Fee" for f in fields):
            kinds += ["pinidx"]
        if cfg.profile == "modelled" and version >= 3:
            kinds += ["shuffle", "storecond", "joinflag", "joinflag"]
            if cfg.on("gtxn_reads"):
                kinds += ["carryindex"]
            if subs and version >= 4:
                kinds += ["passcond"]
        if cfg.profile == "modelled" and version >= 5 and cfg.on("rot"):
            kinds += ["rot"] * 3
        if cfg.profile == "modelled" and version >= 5 and cfg.on("rot") and cfg.on("gtxn_reads") and any(f in PINNED_FIELDS for f in fields):
            kinds += ["rotidx"] * (3 if cfg.group_heavy else 1)
        if (cfg.profile == "modelled" or cfg.xflag) and cfg.on("xconn"):
            kinds += ["xconn", "xconn"]
        kind = draw(st.sampled_from(kinds))
        if in_sub is not None and kind in ("approve", "return") and not cfg.on("sub_internal_approve"):
            kind = "assert" if version >= 3 else "pad"
        if kind == "assert":
            out.append(["assert", draw(cond(cfg, mode, version, fields))])
        elif kind == "if":
            c = draw(cond(cfg, mode, version, fields))
            th = draw(stmts(cfg, mode, version, fields, subs, depth + 1, budget, in_sub)) if depth < 3 else []
            el = draw(stmts(cfg, mode, version, fields, subs, depth + 1, budget, in_sub)) if depth < 3 and draw(st.booleans()) else []
            out.append(["if", c, th, el, draw(st.sampled_from(["bz", "bnz"]))])
        elif kind == "while":
            if cfg.on("abs_read_in_loop") or cfg.shared.get("no_group_reads_at_all"):
                body = draw(stmts(cfg, mode, version, fields, subs, depth + 1, budget, in_sub))
                if subs and (cfg.shared.get("loop_bias") or draw(st.booleans())):
                    # loop whose first body statement is a call: with the do-while lowering the loop header
                    # block itself ends in callsub
                    body.insert(0, ["call", draw(st.sampled_from(subs))])
            else:
                # known finding: a loop body is never part of a reported path; keep absolute-index
                # reads (and calls, which could hide them) out of loop bodies
                cfg2 = cfg.derive({"gtxn_reads"})
                body = draw(stmts(cfg2, mode, version, fields, [], depth + 1, budget, in_sub))
            how_ = draw(st.sampled_from([0, 1, 2]))
            if how_ == 2 and subs and (cfg.on("abs_read_in_loop") or cfg.shared.get("no_group_reads_at_all")) and draw(st.booleans()):
                # rotated loop whose body ends in a call: the block executed after the return is the loop test,
                # which was already executed on the way into the loop
                body.append(["call", draw(st.sampled_from(subs))])
            out.append(["while", draw(st.integers(1, 3)), body, draw(st.integers(0, 3)), how_])
            in_loop = [x[1] for x in body if x[0] == "call"]
            if in_loop and draw(st.booleans()):
                # the subroutine used inside the loop is called once more after it
                out.append(["call", draw(st.sampled_from(in_loop))])
        elif kind == "switch":
            arms = [draw(stmts(cfg, mode, version, fields, subs, depth + 1, budget, in_sub)) for _ in range(draw(st.integers(1, 3)))]
            if subs and not terminal(arms[-1]) and draw(st.booleans()):
                arms[-1].append(["call", draw(st.sampled_from(subs))])  # the last arm ends in a call: the join is its return point
            out.append(["switch", arms, draw(st.sampled_from([0, 1, 2, 2])), draw(st.sampled_from([False, False, True])), draw(st.booleans())])
        elif kind == "call":
            callee = draw(st.sampled_from(subs))
            out.append(["call", callee])
        elif kind == "pad":
            out.append(["pad", draw(st.integers(0, 2))])
        elif kind == "shuffle":
            out.append(["shuffle", draw(st.integers(0, 5)), draw(cond(cfg, mode, version, fields)), draw(cond(cfg, mode, version, fields))])
        elif kind == "storecond":
            out.append(["storecond", draw(cond(cfg, mode, version, fields)), draw(st.integers(10, 13))])
        elif kind == "passcond":
            out.append(["passcond", draw(cond(cfg, mode, version, fields))])
        elif kind == "spin":
            # a conditional branch back to the label of the enclosing subroutine (the entry block of the
            # subroutine is a loop header): only executions on which the branch is not taken go on
            out.append(["spin", draw(cond(cfg, mode, version, fields)), draw(st.sampled_from(["bnz", "bz"]))])
        elif kind == "pinidx":
            # the contract validates its own position and then its own field through that absolute index
            i = draw(st.sampled_from([0, 1, 2, 15, 15]))
            f = draw(st.sampled_from([x for x in fields if x in ADDR_FIELDS or x == "Fee"]))
            rd = ["read", {"kind": draw(st.sampled_from(["gtxn", "gtxns"])), "field": f, "idx": i}]
            if f == "Fee":
                c2 = ["cmp", "<=", rd, ["int", 1000, "1000", "int"]]
            else:
                c2 = ["cmp", "==", rd, ["addr", "ZERO", "global"]]
            c1 = ["cmp", "==", ["read", {"kind": "txn", "field": "GroupIndex"}], ["int", i, str(i), "int"]]
            if draw(st.booleans()):
                out.append(["assert", ["and", c1, c2]])
            else:
                out.append(["assert", c1])
                out.append(["assert", c2])
        elif kind == "carryindex":
            out.append(["carryindex", draw(st.sampled_from(["gi-1", "gi+1", "int0", "int1"])), draw(st.sampled_from(["FirstValid", "Amount"]))])
        elif kind == "joinflag":
            out.append(["joinflag", draw(cond(cfg, mode, version, fields)), draw(atom(cfg, mode, version, fields, lit_ok=True)),
                        draw(st.sampled_from(["&&", "&&", "||"])), draw(st.integers(0, 3)), draw(st.booleans())])
        elif kind == "retcheck":
            out.append(["retcheck", draw(cond(cfg, mode, version, fields))])
        elif kind == "rotidx":
            # three candidate group indices on the stack, rotated by cover 2 / uncover 2; gtxns reads the member whose
            # index ends up on top, the value is compared with a constant and asserted, the unused indices are dropped
            f_ = draw(st.sampled_from([x for x in fields if x in PINNED_FIELDS]))
            a_ = draw(atom(cfg, mode, version, [f_]))
            c_ = [x for x in (a_[2], a_[3]) if x[0] in ("int", "addr")] if a_[0] == "cmp" else []
            if len(c_) != 1 or (f_ in ("OnCompletion", "ApplicationID") and not cfg.on("oc_appid_checks_on_group_members")):
                out.append(["assert", a_] if version >= 3 else ["pad", 0])
            else:
                cands = draw(st.lists(st.sampled_from([0, 1, 2, 3, 15]), min_size=3, max_size=3, unique=True))
                out.append(["rotidx", cands, draw(st.sampled_from(["cover", "uncover"])), f_, c_[0], a_[1], draw(st.booleans())])
        elif kind == "rot":
            # three or four operands (one read of a governed field, constants of its type) pushed in a drawn order,
            # rotated by cover n / uncover n (n >= 2), the two on top compared, the rest dropped afterwards
            a1 = draw(atom(cfg, mode, version, fields))
            a2 = draw(atom(cfg, mode, version, fields))
            def _split(a_):
                if a_[0] != "cmp":
                    return None
                r_ = [x for x in (a_[2], a_[3]) if x[0] == "read"]
                c_ = [x for x in (a_[2], a_[3]) if x[0] in ("int", "addr")]
                return (r_[0], c_[0]) if len(r_) == 1 and len(c_) == 1 else None
            s1, s2 = _split(a1), _split(a2)
            if s1 is None or s2 is None or s1[1][0] != s2[1][0]:
                out.append(["assert", a1] if version >= 3 else ["pad", 0])
            else:
                operands = [s1[0], s1[1], s2[1]]
                if draw(st.booleans()):
                    operands.append(s2[1] if draw(st.booleans()) else s1[1])
                operands = draw(st.permutations(operands))
                n_ = draw(st.sampled_from([2, len(operands) - 1]))
                out.append(["rot", list(operands), draw(st.sampled_from(["cover", "uncover"])), n_, a1[1], draw(st.booleans())])
        elif kind == "xconn":
            # a connective whose operands are (partly or all) computed in other blocks: by a value-returning
            # subroutine (`callsub vsK`), or before a `b next; next:` split; then &&/|| and a consumer
            cfg.shared["uid"] += 1
            nops = draw(st.sampled_from([2, 2, 2, 3]))
            hows = ["same", "split"] + (["vsub", "vsub"] if version >= 4 else [])
            ops_ = []
            for _k in range(nops):
                oc = draw(atom(cfg, mode, version, fields, lit_ok=True)) if draw(st.booleans()) else draw(cond(cfg, mode, version, fields, 2))
                ops_.append([oc, draw(st.sampled_from(hows))])
            if draw(st.integers(0, 2)) == 0:
                for o_ in ops_:
                    if o_[1] == "same":
                        o_[1] = draw(st.sampled_from(hows[1:]))  # every operand comes from another block
            conns = [draw(st.sampled_from(["&&", "||"])) for _k in range(nops - 1)]
            consumer = draw(st.integers(0 if version >= 3 else 2, 5))
            out.append(["xconn", cfg.shared["uid"], ops_, conns, consumer])
        elif kind == "return":
            out.append(["return", draw(cond(cfg, mode, version, fields)), draw(st.integers(0, 2))])
            break
        elif kind == "approve":
            out.append(["approve"])
            break
        elif kind == "reject":
            out.append(["reject"])
            break
        elif kind == "err":
            out.append(["err"])
            break
    return out


def terminal(ss) -> bool:
    """does the statement list always end execution (of the program)"""
    if not ss:
        return False
    last = ss[-1]
    if last[0] in ("return", "approve", "reject", "err"):
        return True
    if last[0] == "if":
        return terminal(last[2]) and terminal(last[3])
    return False


# ------------------------------------------------------------------ lowering
class Lower:
    def __init__(self, version: int, cfg: Cfg):
        self.items: List[list] = []
        self.n = 0
        self.version = version
        self.cfg = cfg
        self.feats: List[str] = []
        self.need_checker = False
        self.vsubs: List[tuple] = []  # value-returning auxiliary subroutines (name, condition)

    def lab(self, p="l"):
        self.n += 1
        return f"{p}{self.n}"

    def emit(self, it):
        self.items.append(it)

    def operand(self, o):
        if o[0] == "int":
            self.emit(I(o[3], o[2]))
        elif o[0] == "addr":
            if o[1] == "ZERO" and o[2] == "global":
                self.emit(I("global", "ZeroAddress"))
            elif o[1] == "ZERO":
                self.emit(I("addr", ZERO_LIT))
            elif o[1] == "CREATOR":
                self.emit(I("global", "CreatorAddress"))
            else:
                self.emit(I("addr", o[1]))
        elif o[0] == "glob":
            self.emit(I("global", o[1]))
            self.feats.append("fee_vs_min_txn_fee")
        elif o[0] == "read":
            s = o[1]
            k = s["kind"]
            if k == "txn":
                self.emit(I("txn", s["field"]))
            elif k == "global":
                self.emit(I("global", s["field"]))
            elif k == "gtxn":
                self.emit(I("gtxn", s["idx"], s["field"]))
                self.feats.append("read_gtxn")
            elif k == "gtxns":
                self.emit(I("int", s["idx"]))
                self.emit(I("gtxns", s["field"]))
                self.feats.append("read_gtxns")
            elif k == "gtxns_self":
                # own transaction read through gtxns with its own index
                self.emit(I("txn", "GroupIndex"))
                self.emit(I("gtxns", s["field"]))
                self.feats.append("read_gtxns_self")
            elif k == "gtxns_gi":
                # index taken from another member's GroupIndex field (= that member's position)
                self.emit(I("gtxn", s["idx"], "GroupIndex"))
                self.emit(I("gtxns", s["field"]))
                self.feats.append("read_gtxns_via_gtxn_groupindex")
            elif k == "rel_split":
                first, second = I("txn", "GroupIndex"), I("int", s["off"])
                if s.get("order"):
                    first, second = second, first
                seq = [first, second, I(s["sign"]), I("gtxns", s["field"])]
                nxt = self.lab()
                for x in seq[:s["split"]]:
                    self.emit(x)
                self.emit(I("b", nxt))
                self.emit(L(nxt))
                for x in seq[s["split"]:]:
                    self.emit(x)
                self.feats.append("read_relative_split_over_blocks")
            elif k == "rel":
                if s.get("order"):
                    self.emit(I("int", s["off"]))
                    self.emit(I("txn", "GroupIndex"))
                else:
                    self.emit(I("txn", "GroupIndex"))
                    self.emit(I("int", s["off"]))
                self.emit(I(s["sign"]))
                self.emit(I("gtxns", s["field"]))
                self.feats.append("read_relative")
        else:
            raise AssertionError(o)

    def cond(self, c):
        k = c[0]
        if k == "cmp":
            self.operand(c[2])
            self.operand(c[3])
            self.emit(I(c[1]))
            if c[2][0] not in ("read", "glob"):
                self.feats.append("const_left")
                if c[1] in ("<", "<=", ">", ">="):
                    self.feats.append("const_left_ordered")
            if c[1] in ("<", "<=", ">", ">="):
                self.feats.append("ordered_cmp")
        elif k == "truthy":
            self.operand(c[1])
            self.feats.append("bare_appid")
        elif k == "opaque":
            self.emit(I("txn", c[1]))
            self.emit(I("int", c[2]))
            self.emit(I(c[3]))
        elif k == "opaque_arith":
            self.emit(I("txn", c[1]))
            self.emit(I("int", c[2]))
            self.emit(I(c[3]))
            self.emit(I("int", c[4]))
            self.emit(I(c[5]))
            self.feats.append("arith")
        elif k == "opaque_bytes":
            self.emit(I("txn", c[1]))
            self.emit(["I", "byte", c[2].split(" ")])
            self.emit(I(c[3]))
            self.feats.append("byte_const")
        elif k == "not":
            self.cond(c[1])
            self.emit(I("!"))
            self.feats.append("not")
        elif k in ("and", "or"):
            self.cond(c[1])
            self.cond(c[2])
            self.emit(I("&&" if k == "and" else "||"))
            self.feats.append(k)
        elif k == "chain":
            self.cond(c[1])
            self.feats.append("long_chain")
        elif k == "lit":
            self.emit(I("int", c[1]))
            self.feats.append("literal_operand")
        elif k == "true":
            self.emit(I("int", 1))
        elif k == "false":
            self.emit(I("int", 0))
        else:
            raise AssertionError(c)

    def ann(self, op, imm, cond):
        it = I(op, *imm)
        it.append({"cond": cond})
        self.emit(it)

    def stmts(self, ss, in_sub):
        for s in ss:
            self.stmt(s, in_sub)

    def stmt(self, s, in_sub):
        n0 = len(self.items)
        self._stmt(s, in_sub)
        if len(self.items) > n0:
            it = self.items[n0]
            if len(it) == 3:
                it.append({})
            if it[0] == "I":
                it[3]["s"] = 1  # first item of a statement (stack is at its base height here)

    def _stmt(self, s, in_sub):
        k = s[0]
        if k == "assert":
            self.cond(s[1])
            self.ann("assert", [], s[1])
        elif k == "retcheck":  # v2: no assert; `c; bnz ok; err; ok:`
            ok = self.lab()
            self.cond(s[1])
            self.ann("bnz", [ok], s[1])
            self.emit(I("err"))
            self.emit(L(ok))
        elif k == "pad":
            self.emit(I("int", 0) if s[1] != 1 else I("txn", "Fee"))
            self.emit(I("pop"))
        elif k == "call":
            self.emit(I("callsub", s[1]))
            self.feats.append("call")
        elif k == "approve":
            self.emit(I("int", 1))
            self.ann("return", [], ["true"])
        elif k == "reject":
            self.emit(I("int", 0))
            self.ann("return", [], ["false"])
        elif k == "err":
            self.emit(I("err"))
        elif k == "return":
            if s[2] == 0 or self.version < 2:
                self.cond(s[1])
                self.ann("return", [], s[1])
            else:
                rej = self.lab()
                self.cond(s[1])
                self.ann("bz", [rej], s[1])
                self.emit(I("int", 1))
                self.ann("return", [], ["true"])
                self.emit(L(rej))
                if s[2] == 1:
                    self.emit(I("err"))
                else:
                    self.emit(I("int", 0))
                    self.ann("return", [], ["false"])
        elif k == "if":
            c, th, el, br = s[1], s[2], s[3], s[4]
            end = self.lab()
            if not th and not el:
                self.feats.append("branch_to_next_line")
            if br == "bz":
                # cond; bz ELSE; then; b END; ELSE: else; END:
                els = self.lab() if el else end
                self.cond(c)
                self.ann("bz", [els], c)
                n0 = len(self.items)
                self.stmts(th, in_sub)
                if th and self.items[-1][0] == "I" and self.items[-1][1] == "callsub" and not el:
                    self.feats.append("return_point_is_jump_target")
                    if not self.cfg.on("return_point_is_jump_target"):
                        self.emit(I("int", 0))
                        self.emit(I("pop"))
                if el:
                    if not terminal(th):
                        self.emit(I("b", end))
                    self.emit(L(els))
                    self.stmts(el, in_sub)
                    if self.items[-1][0] == "I" and self.items[-1][1] == "callsub":
                        self.feats.append("return_point_is_jump_target")
                        if not self.cfg.on("return_point_is_jump_target"):
                            self.emit(I("int", 0))
                            self.emit(I("pop"))
                self.emit(L(end))
            else:
                # cond; bnz THEN; else; b END; THEN: then; END:
                thn = self.lab() if th else end
                self.cond(c)
                self.ann("bnz", [thn], c)
                self.stmts(el, in_sub)
                if el and self.items[-1][0] == "I" and self.items[-1][1] == "callsub" and not th:
                    self.feats.append("return_point_is_jump_target")
                    if not self.cfg.on("return_point_is_jump_target"):
                        self.emit(I("int", 0))
                        self.emit(I("pop"))
                if th:
                    if not terminal(el):
                        self.emit(I("b", end))
                    self.emit(L(thn))
                    self.stmts(th, in_sub)
                    if self.items[-1][0] == "I" and self.items[-1][1] == "callsub":
                        self.feats.append("return_point_is_jump_target")
                        if not self.cfg.on("return_point_is_jump_target"):
                            self.emit(I("int", 0))
                            self.emit(I("pop"))
                self.emit(L(end))
        elif k == "spin":
            self.cond(s[1])
            self.ann(s[2], [in_sub], s[1])
            self.feats.append("loop_to_sub_entry")
            self.feats.append("loop")
        elif k == "while":
            bound, body, slot, dowhile = s[1], s[2], 20 + s[3], s[4]
            top, end = self.lab("loop"), self.lab()
            self.feats.append("loop")
            self.emit(I("int", 0))
            self.emit(I("store", slot))
            if dowhile == 2 and self.version >= 4:
                # rotated loop: jump to the test, which follows the body (`b test; body: ...; test: c; bnz body`)
                self.feats.append("rotated_loop")
                self.emit(I("b", end))
                self.emit(L(top))
                self.emit(I("load", slot))
                self.emit(I("int", 1))
                self.emit(I("+"))
                self.emit(I("store", slot))
                self.stmts(body, in_sub)
                self.emit(L(end))
                self.emit(I("load", slot))
                self.emit(I("int", bound))
                self.emit(I("<"))
                self.emit(I("bnz", top))
                return
            self.emit(L(top))
            if not dowhile:
                self.emit(I("load", slot))
                self.emit(I("int", bound))
                self.emit(I("<"))
                self.emit(I("bz", end))
            self.stmts(body, in_sub)
            self.emit(I("load", slot))
            self.emit(I("int", 1))
            self.emit(I("+"))
            self.emit(I("store", slot))
            if dowhile:
                self.emit(I("load", slot))
                self.emit(I("int", bound))
                self.emit(I("<"))
                self.emit(I("bnz", top))
            else:
                self.emit(I("b", top))
                self.emit(L(end))
        elif k == "switch":
            arms = s[1]
            labs = [self.lab("arm") for _ in arms]
            end = self.lab()
            self.feats.append("switch")
            if len(s) > 3 and s[3] and len(labs) <= 3:
                # `match`: one constant per label, then the value
                sw = list(labs)
                for n_, _lb in enumerate(sw):
                    self.emit(I("int", n_ + 1))
                self.emit(I("txn", "FirstValid"))
                self.emit(I("match", *sw))
                self.feats.append("match")
                self.emit(I("b", end))
                for lb, arm in zip(labs, arms):
                    self.emit(L(lb))
                    self.stmts(arm, in_sub)
                    if not terminal(arm):
                        self.emit(I("b", end))
                self.emit(L(end))
                return
            self.emit(I("txn", "FirstValid"))
            sw = list(labs)
            if len(s) > 2 and s[2]:
                sw.append(labs[(s[2] - 1) % len(labs)])  # the same label may be named twice
                self.feats.append("switch_repeated_label")
            if len(s) > 2 and s[2] == 2 and self.cfg.on("switch_to_join"):
                sw.append(end)  # one value selects the join directly
                self.feats.append("switch_targets_join")
            self.emit(I("switch", *sw))
            if len(s) > 4 and s[4] and self.cfg.on("switch_to_join"):
                self.emit(I("err"))  # a value that selects no label is rejected (`switch a b; err`)
                self.feats.append("switch_default_rejects")
            else:
                self.emit(I("b", end))
            for n_arm, (lb, arm) in enumerate(zip(labs, arms)):
                self.emit(L(lb))
                self.stmts(arm, in_sub)
                # the last arm needs no `b end`: the join is the next line (when the arm ends in a call, the join -
                # possibly a switch target itself - is the return point of that call)
                if not terminal(arm) and not (n_arm == len(arms) - 1 and self.cfg.on("switch_to_join")):
                    self.emit(I("b", end))
            self.emit(L(end))
        elif k == "shuffle":
            t, c1, c2 = s[1], s[2], s[3]
            self.feats.append(f"shuffle{t}")
            if t == 0:  # assert c2, c1 dropped
                self.cond(c1); self.cond(c2); self.emit(I("swap")); self.emit(I("pop")); self.emit(I("assert"))
            elif t == 1:  # assert c1
                self.cond(c1); self.cond(c2); self.emit(I("pop")); self.emit(I("assert"))
            elif t == 2:  # assert c1 (dup; &&)
                self.cond(c1); self.emit(I("dup")); self.emit(I("&&")); self.emit(I("assert"))
            elif t == 3:  # assert (opaque ? c2 : c1)
                self.cond(c1); self.cond(c2); self.emit(I("txn", "FirstValid")); self.emit(I("select")); self.emit(I("assert"))
            elif t == 4 and self.version >= 5:  # cover/uncover round trip, assert c1 && c2
                self.cond(c1); self.cond(c2); self.emit(I("cover", 1)); self.emit(I("uncover", 1)); self.emit(I("&&")); self.emit(I("assert"))
            else:  # dig: assert c1, then c2 popped, c1 popped
                self.cond(c1); self.cond(c2); self.emit(I("dig", 1)); self.emit(I("assert")); self.emit(I("pop")); self.emit(I("pop"))
        elif k == "storecond":
            self.feats.append("storecond")
            self.cond(s[1])
            self.emit(I("store", s[2]))
            self.emit(I("int", 0))
            self.emit(I("pop"))
            mid = self.lab()
            self.emit(I("b", mid))
            self.emit(L(mid))
            self.emit(I("load", s[2]))
            self.emit(I("assert"))
        elif k == "carryindex":
            # a group index is computed in one block and used by gtxns in the next one (the tool cannot tell
            # which member is read); the value read is dropped, so the statement is stack neutral
            self.feats.append("carryindex")
            how, fld = s[1], s[2]
            if how.startswith("gi"):
                self.emit(I("txn", "GroupIndex"))
                self.emit(I("int", 1))
                self.emit(I("-" if how == "gi-1" else "+"))
            else:
                self.emit(I("int", int(how[-1])))
            nxt = self.lab()
            self.emit(I("b", nxt))
            self.emit(L(nxt))
            self.emit(I("gtxns", fld))
            self.emit(I("pop"))
        elif k == "joinflag":
            # a flag is left on the stack by two branches that join; it is combined with a comparison in the
            # join block and the result is consumed positively or negatively
            self.feats.append("joinflag")
            flagc, cmpc, conn, consumer, flag_first = s[1], s[2], s[3], s[4], s[5]
            a_, j_ = self.lab(), self.lab()
            self.cond(flagc)
            self.emit(I("bnz", a_))
            self.emit(I("int", 0))
            self.emit(I("b", j_))
            self.emit(L(a_))
            self.emit(I("int", 1))
            self.emit(L(j_))
            self.cond(cmpc)
            if not flag_first:
                self.emit(I("swap"))
            self.emit(I(conn))
            if consumer == 0:
                self.emit(I("assert"))
            elif consumer == 1:
                self.emit(I("!"))
                self.emit(I("assert"))
            elif consumer == 2:
                ok = self.lab()
                self.emit(I("bz", ok))
                self.emit(I("err"))
                self.emit(L(ok))
            else:
                rej, ok = self.lab(), self.lab()
                self.emit(I("bnz", rej))
                self.emit(I("b", ok))
                self.emit(L(rej))
                self.emit(I("err"))
                self.emit(L(ok))
        elif k == "rotidx":
            cands, rop, f_, c_, op_, neg = s[1], s[2], s[3], s[4], s[5], s[6]
            self.feats.append("gtxns_index_rotated")
            for v_ in cands:
                self.emit(I("int", v_))
            self.emit(I(rop, 2))
            self.emit(I("gtxns", f_))
            self.operand(c_)
            self.emit(I(op_))
            if neg:
                self.emit(I("!"))
            self.emit(I("assert"))
            self.emit(I("pop"))
            self.emit(I("pop"))
        elif k == "rot":
            operands, rop, n_, op_, neg = s[1], s[2], s[3], s[4], s[5]
            self.feats.append(f"rot_{rop}{n_}")
            for o_ in operands:
                self.operand(o_)
            self.emit(I(rop, n_))
            self.emit(I(op_))
            if neg:
                self.emit(I("!"))
            self.emit(I("assert"))
            for _ in range(len(operands) - 2):
                self.emit(I("pop"))
        elif k == "xconn":
            uid, ops_, conns, consumer = s[1], s[2], s[3], s[4]
            self.feats.append("xconn")
            last_cross = max([i for i, o_ in enumerate(ops_) if o_[1] != "same"], default=-1)
            if last_cross == len(ops_) - 1:
                self.feats.append("xconn_all_operands_from_other_blocks")
            lit_ops = []
            for i, (oc, how) in enumerate(ops_):
                if how == "vsub":
                    nm = f"vs{uid}_{i}"
                    self.vsubs.append((nm, oc))
                    self.emit(I("callsub", nm))
                    self.feats.append("value_returning_subroutine")
                else:
                    self.cond(oc)
                    if how == "split":
                        nxt = self.lab()
                        self.emit(I("b", nxt))
                        self.emit(L(nxt))
                # what the consuming block can see: an operand pushed before the last block boundary is a value
                # from another block (opaque for the literal reading)
                lit_ops.append(oc if i > last_cross else ["opaque_x"])
            tree = lit_ops[-1]
            for i in range(len(ops_) - 2, -1, -1):
                self.emit(I(conns[i]))
                tree = ["and" if conns[i] == "&&" else "or", lit_ops[i], tree]
            # connectives are applied innermost (last two operands) first
            if consumer == 0:
                self.ann("assert", [], tree)
            elif consumer == 1:
                self.emit(I("!"))
                self.ann("assert", [], ["not", tree])
            elif consumer in (2, 3):  # continue iff false / iff true; the other side rejects
                ok = self.lab()
                self.ann("bz" if consumer == 2 else "bnz", [ok], tree)
                self.emit(I("err"))
                self.emit(L(ok))
            else:  # 4: continue iff true, 5: continue iff false; the jump side rejects
                rej, ok = self.lab(), self.lab()
                self.ann("bz" if consumer == 4 else "bnz", [rej], tree)
                self.emit(I("b", ok))
                self.emit(L(rej))
                self.emit(I("err"))
                self.emit(L(ok))
        elif k == "passcond":
            self.feats.append("passcond")
            self.need_checker = True
            self.cond(s[1])
            self.emit(I("callsub", "checker"))
        else:
            raise AssertionError(s)


def lower_program(ast: dict, cfg: Cfg) -> dict:
    lw = Lower(ast["version"], cfg)
    subs = ast["subs"]
    order = list(subs)

    # a first pass into a side buffer tells which auxiliary subroutines the program needs (`checker`, the
    # value-returning `vsK_i` of xconn statements) before anything is placed
    tmp = Lower(ast["version"], cfg)
    tmp.n = 1000
    tmp.stmts(ast["main"], None)
    for nm in order:
        tmp.stmts(subs[nm], nm)
    if ast.get("end") == 2 and ast.get("end_cond") is not None:
        tmp.cond(ast["end_cond"])
    lw.need_checker = tmp.need_checker
    vsubs = list(tmp.vsubs)
    # (conditions of value-returning subroutines may hold further split reads, never further xconn statements)

    def emit_subs():
        for nm in order:
            lw.emit(L(nm))
            lw.stmts(subs[nm], nm)
            if not terminal(subs[nm]):
                lw.emit(I("retsub"))
            if any(x[0] in ("approve", "return") for x in _flat(subs[nm])):
                lw.feats.append("sub_internal_approve")
        if lw.need_checker:
            lw.emit(L("checker"))
            lw.emit(I("assert"))
            lw.emit(I("retsub"))
        for nm, c in vsubs:
            lw.emit(L(nm))
            lw.cond(c)
            lw.emit(I("retsub"))

    aux = bool(subs) or lw.need_checker or bool(vsubs)
    if ast.get("subs_first"):
        if aux or ast.get("end") == 2:
            lw.emit(I("b", "main_start"))
            if ast.get("end") == 2:
                lw.emit(L("approve_end"))
                lw.emit(I("int", 1))
                lw.ann("return", [], ["true"])
            emit_subs()
            lw.emit(L("main_start"))
            lw.feats.append("subs_before_main")
        lw.stmts(ast["main"], None)
        _finish_main(lw, ast)
    else:
        lw.stmts(ast["main"], None)
        if aux:
            ast = dict(ast, end=0)  # main must not fall into the subroutine bodies
        _finish_main(lw, ast)
        emit_subs()
    if ast.get("coalesce"):
        _coalesce_labels(lw)
    if ast.get("intcblock"):
        lw.intc_pos = ast.get("intc_pos", 0)
        _use_intcblock(lw, ast["intcblock"])
    feats = sorted(set(lw.feats))
    return {"version": ast["version"], "items": lw.items, "mode": ast["mode"], "features": feats, "structured": True}


def _finish_main(lw: Lower, ast: dict):
    if ast.get("end") == 2 and ast.get("end_cond") is not None:
        # the deciding branch is the very last instruction of the program: when it is not taken execution
        # falls off the end with an empty stack and is rejected
        if terminal(ast["main"]):
            return
        lw.cond(ast["end_cond"])
        lw.ann("bnz", ["approve_end"], ast["end_cond"])
        lw.feats.append("trailing_branch")
        return
    if not terminal(ast["main"]):
        end = ast.get("end", 0)
        if end == 1 and lw.cfg.on("fall_off_end"):
            lw.emit(I("int", 1))
            lw.feats.append("fall_off_end")
        else:
            lw.emit(I("int", 1))
            lw.ann("return", [], ["true"])


def _flat(ss):
    for s in ss:
        yield s
        if s[0] == "if":
            yield from _flat(s[2])
            yield from _flat(s[3])
        elif s[0] == "while":
            yield from _flat(s[2])
        elif s[0] == "switch":
            for a in s[1]:
                yield from _flat(a)


def _coalesce_labels(lw: Lower):
    """merge back-to-back labels into one (hand-written code shares join labels)"""
    ren = {}
    out = []
    for it in lw.items:
        if it[0] == "L" and out and out[-1][0] == "L" and it[1] not in ("main_start", "checker", "approve_end") and not it[1].startswith("sub") and not it[1].startswith("vs"):
            ren[it[1]] = out[-1][1]
            continue
        out.append(it)
    if not ren:
        return
    for it in out:
        if it[0] == "I" and it[1] in ("b", "bz", "bnz", "switch", "match", "callsub"):
            it[2] = [ren.get(x, x) for x in it[2]]
    lw.items = out
    lw.feats.append("shared_join_label")


def _use_intcblock(lw: Lower, how: int):
    """replace every `int`/`pushint` with numeric immediate by intcblock + intc (entry block)"""
    from vf.ravm import parse_int_tok

    consts: List[int] = []
    for it in lw.items:
        if it[0] == "I" and it[1] in ("int", "pushint"):
            v = parse_int_tok(it[2][0])
            if v not in consts:
                consts.append(v)
    if not consts or len(consts) > 200:
        return
    for it in lw.items:
        if it[0] == "I" and it[1] in ("int", "pushint"):
            k = consts.index(parse_int_tok(it[2][0]))
            if k < 4 and how in (1, 3, 4, 5):
                it[1], it[2] = f"intc_{k}", []
            else:
                it[1], it[2] = "intc", [str(k)]
    pos = 0
    if how == 3 and lw.version >= 3:
        # intcblock outside the entry block (after the jump over the subroutine bodies): tealer cannot
        # resolve the constants, every intc is an unknown integer for it; the AVM executes it all the same
        for k, it in enumerate(lw.items):
            if it[0] == "L" and it[1] == "main_start":
                pos = k + 1
                lw.feats.append("intcblock_not_in_entry_block")
                break
    if how == 4:
        # one intcblock in the entry block and a second one, with the constants rotated, at the start of the
        # first subroutine: from the first call on every intc pushes another constant. Valid TEAL (the last
        # intcblock executed counts); the annotations no longer describe the conditions, so only checks whose
        # reference is R-AVM use this form
        for k, it in enumerate(lw.items):
            if it[0] == "L" and it[1] == "sub0" and len(consts) >= 2:
                lw.items.insert(k + 1, I("intcblock", *(consts[1:] + consts[:1])))
                lw.feats.append("second_intcblock_in_subroutine")
                break
    if how == 5 and len(consts) >= 2:
        # a second intcblock (constants rotated) right after some label of the program: it is executed on the
        # paths through that label only, from then on every intc pushes another constant
        labs = [k for k, it in enumerate(lw.items) if it[0] == "L"]
        if labs:
            k = labs[lw.intc_pos % len(labs)]
            lw.items.insert(k + 1, I("intcblock", *(consts[1:] + consts[:1])))
            lw.feats.append("second_intcblock_in_later_block")
    lw.items.insert(pos, I("intcblock", *consts))
    lw.feats.append("intcblock")


# ------------------------------------------------------------------ top level strategy
DETECTOR_FIELDS = {
    "lsig": ["RekeyTo", "CloseRemainderTo", "AssetCloseTo", "Fee", "TypeEnum", "GroupSize", "GroupIndex"],
    "app": ["OnCompletion", "ApplicationID", "Sender", "TypeEnum", "GroupSize", "GroupIndex"],
}


@st.composite
def semantic_program(draw, profile: str = "modelled", disabled=(), focus: Optional[List[str]] = None,
                     mode: Optional[str] = None, max_stmts: int = 12, with_ast: bool = False, pinned: bool = False,
                     second_intcblock: bool = False, allslots: bool = False, xflag: bool = False, loop_bias: bool = False):
    cfg = Cfg(profile, disabled, focus, mode)
    cfg.xflag = xflag
    if loop_bias:
        # theme: loops that call subroutines which call further subroutines, the same subroutine used again after
        # the loop; no reads of other group members (so the theme is available under the known finding
        # abs_read_in_loop as well)
        cfg.shared["loop_bias"] = True
        cfg.shared["no_group_reads_at_all"] = True
        cfg.off |= {"gtxn_reads"}
    version = draw(st.sampled_from([8, 8, 8, 7, 6, 5, 4, 4, 3, 2]))
    if loop_bias:
        version = max(version, 4)
    if pinned:
        # the program first asserts its own group position i; every check of a governed field is then spelled
        # `gtxn i F` / `int i; gtxns F`
        cfg.pin = draw(st.sampled_from([0, 1, 2, 7, 14, 15, 15]))
        cfg.off |= {"pinidx_stmt"}
    if not cfg.on("abs_read_in_loop") and draw(st.booleans()):
        # known finding (an absolute-index read inside a loop is never on a reported path): half of the programs
        # read no other group member at all - their loops may then hold calls and everything else
        cfg.off |= {"gtxn_reads"}
        cfg.shared["no_group_reads_at_all"] = True
    m = mode or draw(st.sampled_from(["lsig", "lsig", "app"]))
    fields = list(focus) if focus else list(DETECTOR_FIELDS[m])
    if allslots:
        cfg.allslots = True
        cfg.off |= {"pinidx_stmt"}
        # ApplicationID shares the transaction-kind information with TypeEnum/OnCompletion and is read in the
        # bare `txn ApplicationID` form as well: left out so that every governed check has the all-slots form
        fields = [f for f in fields if f != "ApplicationID"]
    if m == "lsig" and not cfg.on("oc_appid_checks_in_lsig"):
        fields = [f for f in fields if f not in ("OnCompletion", "ApplicationID")] or ["TypeEnum"]
    # a program concentrates on 1-3 fields so that checks interact
    nf = draw(st.integers(1, min(3, len(fields))))
    fields = draw(st.lists(st.sampled_from(fields), min_size=nf, max_size=nf, unique=True))
    if version < 2:
        fields = [f for f in fields if f not in ("RekeyTo", "OnCompletion", "ApplicationID")]
    nsubs = draw(st.integers(0, 3)) if version >= 4 else 0
    if loop_bias:
        nsubs = max(nsubs, 2)
    sub_names = [f"sub{k}" for k in range(nsubs)]
    budget = [max_stmts]
    subs = {}
    # subroutine k may call subroutines with a higher number (no recursion unless enabled)
    for k in reversed(range(nsubs)):
        callees = sub_names[k + 1:]
        if cfg.profile == "modelled" and cfg.on("recursion") and draw(st.integers(0, 9)) == 0:
            callees = callees + [sub_names[k]]
        b = [max(2, budget[0] // 3)]
        subs[sub_names[k]] = draw(stmts(cfg, m, version, fields, callees, 1, b, sub_names[k]))
        if callees and (cfg.shared.get("loop_bias") or draw(st.sampled_from([0, 0, 1]))):
            # nested call: the subroutine starts by calling another one
            subs[sub_names[k]].insert(0, ["call", draw(st.sampled_from(callees))])
    main = draw(stmts(cfg, m, version, fields, sub_names, 0, budget, None))
    chain = False
    if nsubs >= 2 and version >= 3 and cfg.on("sub_internal_approve") and draw(st.integers(0, 3)) == 0:
        # deep call chain main -> sub0 -> sub1 (-> sub2); the deepest subroutine approves on a condition and
        # the code after the call in main checks something else
        chain = True
        for k in range(nsubs - 1):
            subs[sub_names[k]].insert(0, ["call", sub_names[k + 1]])
        subs[sub_names[-1]].insert(0, ["if", draw(cond(cfg, m, version, fields)), [["approve"]], [], draw(st.sampled_from(["bz", "bnz"]))])
        main[0:0] = [["call", sub_names[0]], ["assert", draw(cond(cfg, m, version, fields))]]
    if cfg.pin is not None:
        gi = ["read", {"kind": "txn", "field": "GroupIndex"}]
        ci = ["int", cfg.pin, str(cfg.pin), "int"]
        main[0:0] = [["assert", ["cmp", "==", gi, ci] if draw(st.booleans()) else ["cmp", "==", ci, gi]]]
    ast = {
        "version": version, "mode": m, "main": main, "subs": {n: subs[n] for n in sub_names},
        "subs_first": draw(st.booleans()), "end": draw(st.sampled_from([0, 0, 0, 1])),
        "intcblock": draw(st.sampled_from([0, 0, 0, 0, 1, 2, 3])) if version >= 2 else 0,
        "coalesce": draw(st.booleans()) and cfg.on("shared_join_label"),
    }
    if version >= 4 and draw(st.integers(0, 7)) == 0 and cfg.on("trailing_branch"):
        ast["end"] = 2
        ast["subs_first"] = True
        ast["end_cond"] = draw(cond(cfg, m, version, fields))
    if (cfg.profile == "direct" or not cfg.on("intcblock_not_in_entry_block")) and ast["intcblock"] == 3:
        # exactness is only claimed where the tool can know the constants (one intcblock, entry block)
        ast["intcblock"] = 1
    if second_intcblock and cfg.profile == "modelled" and nsubs and draw(st.integers(0, 2)) == 0:
        ast["intcblock"] = 4
    elif cfg.profile == "modelled" and cfg.on("intcblock_not_in_entry_block") and cfg.on("second_intcblock") and version >= 2 and draw(st.sampled_from(range(10))) == 9:
        # (programs whose reference is R-AVM only: the generator's annotations no longer describe the conditions)
        # not together with recursion: with the constants replaced between two activations of one subroutine an
        # execution can need the second activation to be accepted, and recursive activations are outside the
        # fragment the properties quantify over (shared and nested subroutines)
        if not any(x[0] == "call" and x[1] == nm_ for nm_, b_ in subs.items() for x in _flat(b_)):
            ast["intcblock"] = 5
            ast["intc_pos"] = draw(st.integers(0, 30))
    prog = lower_program(ast, cfg)
    if chain:
        prog["features"] = sorted(set(prog["features"]) | {"deep_call_chain"})
    if cfg.pin is not None:
        prog["pin"] = cfg.pin
        prog["features"] = sorted(set(prog["features"]) | {"pinned_index"})
    if cfg.allslots:
        prog["allslots"] = True
        prog["features"] = sorted(set(prog["features"]) | {"all_slots_checks"})
    if with_ast:
        prog["ast"] = ast
        prog["cfg_off"] = sorted(cfg.off)
        prog["profile"] = profile
    finalize_mode(prog)
    from hypothesis import assume

    assume(path_estimate(prog) <= PATH_LIMIT)
    return prog


PATH_LIMIT = 1500


def path_estimate(prog: dict) -> int:
    """number of entry->exit paths of the global graph with back edges removed (tealer's detectors
    enumerate paths explicitly, so this bounds their work; generated programs are kept below PATH_LIMIT)"""
    from vf.rcfg import RCFG

    g = RCFG({"version": prog["version"], "items": prog["items"]})
    first = {g.seq[b[0]].line: k for k, b in enumerate(g.blocks)}
    memo = {}
    sub_memo = {}
    active = set()

    def sub_counts(name):
        if name in sub_memo:
            return sub_memo[name]
        if name in active:
            return (1, 0)
        active.add(name)
        res = block_counts(g.block_of[g.sub_entry[name]])
        active.discard(name)
        sub_memo[name] = res
        return res

    def block_counts(k):
        if k in memo:
            return memo[k]
        memo[k] = (0, 0)  # cuts cycles
        blk = g.blocks[k]
        last = g.seq[blk[-1]]
        succs = [first[l] for l in g.succ_lines(last.line) if l in first and first[l] > k]
        if last.op == "retsub":
            res = (1, 0)
        elif last.op in ("return", "err"):
            res = (0, 1)
        elif last.op == "callsub":
            rs, as_ = sub_counts(last.imm[0])
            if succs:
                rp = block_counts(succs[0])
                res = (rs * rp[0], as_ + rs * rp[1])
            else:
                res = (0, as_ + rs)
        elif not succs:
            res = (0, 1)
        else:
            r = a = 0
            for s_ in succs:
                x = block_counts(s_)
                r += x[0]
                a += x[1]
            res = (min(r, 10**9), min(a, 10**9))
        memo[k] = res
        return res

    r, a = block_counts(0)
    return r + a


def finalize_mode(prog: dict) -> dict:
    if prog["mode"] == "app":
        # make the flavour visible to tealer's mode detection: one application-only instruction, stack-neutral
        ins_at = 1 if prog["items"] and prog["items"][0][1] == "intcblock" else 0
        marker = [I("pushint" if prog["version"] >= 3 else "int", 0), I("balance"), I("pop")]
        if prog["items"] and prog["items"][0][1] == "intcblock":
            # constants come from the block: use one that exists
            marker[0] = I("intc", 0)
        prog["items"][ins_at:ins_at] = marker
    return prog
