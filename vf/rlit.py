"""R-LIT: the literal-reading oracle.

For a *valuation* of some governed inputs (e.g. {"RekeyTo": ATTACKER} or {"GroupSize": 16}) every
comparison of such an input (read through `txn F` / `global GroupSize`) against a constant is
evaluated exactly, every other condition may go either way.  On the graph restricted to what the
valuation can pass, interprocedural reachability with matched calls/returns tells for each block
whether it lies on an entry -> accepting-leaf walk:
    cs  - context sensitive (what a concrete execution could do)
    ci  - subroutine blocks may be returned from to any call site (the latitude the properties grant)
Conditions come from the generator's annotations (generator-side truth), never from tealer.
"""
from __future__ import annotations

from typing import Any, Dict, List, Optional, Set, Tuple

from vf import ravm
from vf.rcfg import RCFG

T, F = True, False
BOTH = frozenset([T, F])
ONLY_T = frozenset([T])
ONLY_F = frozenset([F])

FRESH = ravm.ATTACKER


class _NonZero:
    """some non-zero integer whose exact value is not fixed: only comparisons with 0 are definite"""

    def __repr__(self):
        return "NONZERO"


NONZERO = _NonZero()


def const_value(o) -> Any:
    if o[0] == "int":
        return o[1]
    if o[0] == "addr":
        if o[1] == "ZERO":
            return ravm.ZERO
        if o[1] == "CREATOR":
            return ravm.CREATOR
        return o[1].encode()
    raise AssertionError(o)


def governed_read(o) -> Optional[str]:
    """name of the governed input an operand reads directly (own transaction / group size)"""
    if o[0] != "read":
        return None
    s = o[1]
    if s["kind"] in ("txn", "gtxns_self"):
        return s["field"]
    if s["kind"] == "gtxns_gi":
        return None  # not one of the attributed read forms: opaque
    if s["kind"] == "global" and s["field"] == "GroupSize":
        return "GroupSize"
    # reads of another group member: keyed ("abs", index, field) / ("rel", offset, field); they only take
    # part in the evaluation when a valuation names them (group-mode checks)
    if s["kind"] in ("gtxn", "gtxns"):
        return ("abs", s["idx"], s["field"])
    if s["kind"] == "rel":
        return ("rel", s["off"] if s["sign"] == "+" else -s["off"], s["field"])
    return None


def _cmp(op: str, a, b) -> bool:
    return {"==": a == b, "!=": a != b, "<": a < b, "<=": a <= b, ">": a > b, ">=": a >= b}[op]


def _cmp3(op: str, a, b) -> frozenset:
    """comparison where one side may be NONZERO"""
    if a is NONZERO and b is NONZERO:
        return BOTH
    if a is NONZERO:
        if b != 0:
            return BOTH
        return ONLY_T if _cmp(op, 1, 0) else ONLY_F
    if b is NONZERO:
        if a != 0:
            return BOTH
        return ONLY_T if _cmp(op, 0, 1) else ONLY_F
    return ONLY_T if _cmp(op, a, b) else ONLY_F


def eval3(c, val: Dict[str, Any]) -> frozenset:
    k = c[0]
    if k == "true":
        return ONLY_T
    if k == "false":
        return ONLY_F
    if k.startswith("opaque") or k == "lit":
        return BOTH  # not a comparison of a governed field against a constant: free (also an integer literal)
    if k == "truthy":
        f = governed_read(c[1])
        if f is not None and f in val:
            return ONLY_T if (val[f] is NONZERO or val[f] != 0) else ONLY_F
        return BOTH
    if k == "cmp":
        a, b = c[2], c[3]
        if a[0] == "glob" or b[0] == "glob":
            return BOTH  # compared with a run-time value: not a comparison against a constant
        fa, fb = governed_read(a), governed_read(b)
        # a read through the absolute index the governed transaction itself occupies is a read of its own field
        if isinstance(fa, tuple) and fa[0] == "abs" and fa not in val and val.get("__own_index__") == fa[1]:
            fa = fa[2]
        if isinstance(fb, tuple) and fb[0] == "abs" and fb not in val and val.get("__own_index__") == fb[1]:
            fb = fb[2]
        if fa is not None and fa in val and b[0] != "read":
            return _cmp3(c[1], val[fa], const_value(b))
        if fb is not None and fb in val and a[0] != "read":
            return _cmp3(c[1], const_value(a), val[fb])
        return BOTH
    if k == "chain":
        return eval3(c[1], val)
    if k == "not":
        return frozenset(not x for x in eval3(c[1], val))
    if k == "and":
        x, y = eval3(c[1], val), eval3(c[2], val)
        return frozenset(p and q for p in x for q in y)
    if k == "or":
        x, y = eval3(c[1], val), eval3(c[2], val)
        return frozenset(p or q for p in x for q in y)
    raise AssertionError(c)


def cond_fields(c, acc: Optional[Set[str]] = None) -> Set[str]:
    """governed inputs a condition compares with constants"""
    acc = set() if acc is None else acc
    k = c[0]
    if k == "cmp":
        for o, other in ((c[2], c[3]), (c[3], c[2])):
            f = governed_read(o)
            if f is not None and other[0] not in ("read", "glob"):
                acc.add(f)
    elif k == "truthy":
        f = governed_read(c[1])
        if f:
            acc.add(f)
    elif k in ("not", "chain"):
        cond_fields(c[1], acc)
    elif k in ("and", "or"):
        cond_fields(c[1], acc)
        cond_fields(c[2], acc)
    return acc


class Lit:
    def __init__(self, g: RCFG, items: List[list]):
        self.g = g
        self.items = items
        self.nb = len(g.blocks)
        self.first_line = [g.seq[b[0]].line for b in g.blocks]
        self.block_by_line = {l: i for i, l in enumerate(self.first_line)}
        self.ann: Dict[int, Any] = {}
        for nd in g.seq:
            if nd.item_idx is not None:
                it = items[nd.item_idx]
                if len(it) > 3 and isinstance(it[3], dict) and "cond" in it[3]:
                    self.ann[nd.idx] = it[3]["cond"]
        # region (subroutine) of each block
        self.region: List[str] = ["?"] * self.nb
        self.subs = list(g.sub_entry)
        main = g.main_lines()
        for bi, b in enumerate(g.blocks):
            if g.seq[b[0]].line in main:
                self.region[bi] = "__main__"
        for nm in self.subs:
            lines = g.subroutine_lines(nm)
            for bi, b in enumerate(g.blocks):
                if g.seq[b[0]].line in lines:
                    self.region[bi] = nm
        self.entry = {"__main__": 0}
        for nm, e in g.sub_entry.items():
            self.entry[nm] = g.block_of[e]
        self.callsites: Dict[str, List[int]] = {nm: [] for nm in self.subs}
        for bi, b in enumerate(g.blocks):
            last = g.seq[b[-1]]
            if last.op == "callsub":
                self.callsites[last.imm[0]].append(bi)
        self.abs_read_block = [self._has_abs_read(b) for b in g.blocks]

    def _has_abs_read(self, blk) -> bool:
        g = self.g
        for k, i in enumerate(blk):
            nd = g.seq[i]
            if nd.op in ("gtxn", "gtxna", "gtxnas"):
                return True
            if nd.op in ("gtxns", "gtxnsa") and k > 0 and g.seq[blk[k - 1]].op in ("int", "pushint", "intc", "intc_0", "intc_1", "intc_2", "intc_3"):
                return True
        return False

    def block_fields(self) -> Set[str]:
        acc: Set[str] = set()
        for c in self.ann.values():
            cond_fields(c, acc)
        return acc

    # ------------------------------------------------------------------ restricted graph
    cut_edges: Set[Tuple[int, int]] = frozenset()  # (block, successor block) pairs removed from the graph

    def restrict(self, val: Dict[str, Any]):
        ok, leaf, kind, succ = self._restrict(val)
        if self.cut_edges:
            succ = [[x for x in succ[b] if (b, x) not in self.cut_edges] for b in range(self.nb)]
        return ok, leaf, kind, succ

    def _restrict(self, val: Dict[str, Any]):
        g = self.g
        ok = [True] * self.nb
        leaf = [False] * self.nb  # accepting leaf
        kind = ["plain"] * self.nb
        succ: List[List[int]] = [[] for _ in range(self.nb)]
        for bi, b in enumerate(g.blocks):
            for i in b:
                nd = g.seq[i]
                if nd.op == "assert" and i in self.ann and T not in eval3(self.ann[i], val):
                    ok[bi] = False
            last = g.seq[b[-1]]
            s_lines = g.succ_lines(last.line)
            s_blocks = [self.block_by_line[l] for l in s_lines]
            if last.op == "err":
                ok[bi] = False
                kind[bi] = "term"
            elif last.op == "return":
                kind[bi] = "term"
                if b[-1] in self.ann and T not in eval3(self.ann[b[-1]], val):
                    ok[bi] = False
                else:
                    leaf[bi] = True
            elif last.op == "retsub":
                kind[bi] = "ret"
            elif last.op == "callsub":
                kind[bi] = "call"
                succ[bi] = s_blocks  # return point (or empty)
            elif last.op in ("bz", "bnz"):
                pol = eval3(self.ann[b[-1]], val) if b[-1] in self.ann else BOTH
                jump_when = F if last.op == "bz" else T
                tgt = self.block_by_line[g.seq[g.label_at[last.imm[0]]].line]
                fall = self.block_by_line[g.seq[b[-1] + 1].line] if b[-1] + 1 < g.n else None
                out = []
                if fall is not None and (not jump_when) in pol:
                    out.append(fall)
                if jump_when in pol and tgt not in out:
                    out.append(tgt)
                if fall is None and (not jump_when) in pol:
                    # falling off the end after a conditional branch: accepts only with one non-zero value left
                    pass
                succ[bi] = out
            else:
                succ[bi] = s_blocks
                if not s_blocks and last.op in ("int", "pushint", "intc", "intc_0", "intc_1", "intc_2", "intc_3"):
                    leaf[bi] = True  # falls off the end of the program with its own non-zero constant on the stack
                    try:
                        if ravm.parse_int_tok(last.imm[0]) == 0 and last.op in ("int", "pushint"):
                            leaf[bi] = False
                    except (ValueError, IndexError):
                        pass
        return ok, leaf, kind, succ

    def restrict_independent(self, vals: List[Dict[str, Any]]):
        """several valuations read *independently* (no correlation between them): a block / edge is
        admitted iff it is admitted under each valuation on its own"""
        parts = [self.restrict(v) for v in vals]
        ok, leaf, kind, succ = parts[0]
        ok, leaf = list(ok), list(leaf)
        succ = [list(x) for x in succ]
        for o2, l2, _, s2 in parts[1:]:
            for b in range(self.nb):
                ok[b] = ok[b] and o2[b]
                leaf[b] = leaf[b] and l2[b]
                succ[b] = [x for x in succ[b] if x in s2[b]]
        return ok, leaf, kind, succ

    def walks(self, val) -> Tuple[Set[int], Set[int]]:
        """-> (cs, ci): blocks on an entry->accepting-leaf walk under the valuation
        (a dict, or a list of dicts that are read independently of each other)"""
        g = self.g
        if isinstance(val, dict):
            ok, leaf, kind, succ = self.restrict(val)
        else:
            ok, leaf, kind, succ = self.restrict_independent(val)
        nb = self.nb
        callee = [self.entry[g.seq[g.blocks[b][-1]].imm[0]] if kind[b] == "call" else None for b in range(nb)]
        callee_name = [g.seq[g.blocks[b][-1]].imm[0] if kind[b] == "call" else None for b in range(nb)]
        # ---- summaries: RetOK(b), Acc(b) least fixpoint
        ret_ok = [False] * nb
        acc = [False] * nb
        changed = True
        while changed:
            changed = False
            for b in range(nb):
                if not ok[b]:
                    continue
                r, a = ret_ok[b], acc[b]
                if kind[b] == "ret":
                    r = True
                elif kind[b] == "call":
                    h = callee[b]
                    a = a or acc[h]
                    if ret_ok[h] and succ[b]:
                        rp = succ[b][0]
                        r = r or ret_ok[rp]
                        a = a or acc[rp]
                else:
                    if leaf[b]:
                        a = True
                    for s in succ[b]:
                        r = r or ret_ok[s]
                        a = a or acc[s]
                if (r, a) != (ret_ok[b], acc[b]):
                    ret_ok[b], acc[b] = r, a
                    changed = True
        # ---- intra-procedural forward reach from each region entry
        fr = [False] * nb
        for nm, e in self.entry.items():
            if not ok[e]:
                continue
            stack = [e]
            seen = set()
            while stack:
                b = stack.pop()
                if b in seen or not ok[b]:
                    continue
                seen.add(b)
                if kind[b] == "call":
                    if ret_ok[callee[b]] and succ[b]:
                        stack.append(succ[b][0])
                elif kind[b] != "ret":
                    stack.extend(succ[b])
            for b in seen:
                if self.region[b] == nm:
                    fr[b] = True
        # ---- contexts
        reach_any = {nm: False for nm in self.entry}
        reach_cont = {nm: False for nm in self.entry}
        reach_any["__main__"] = True
        changed = True
        while changed:
            changed = False
            for b in range(nb):
                if kind[b] != "call" or not fr[b] or not ok[b]:
                    continue
                gname, fname = self.region[b], callee_name[b]
                if gname not in reach_any:
                    continue
                if reach_any[gname] and not reach_any[fname]:
                    reach_any[fname] = True
                    changed = True
                if succ[b]:
                    rp = succ[b][0]
                    if ((reach_any[gname] and acc[rp]) or (reach_cont[gname] and ret_ok[rp])) and not reach_cont[fname]:
                        reach_cont[fname] = True
                        changed = True
        cs = set()
        for b in range(nb):
            f = self.region[b]
            if f in reach_any and fr[b] and ok[b] and ((reach_any[f] and acc[b]) or (reach_cont[f] and ret_ok[b])):
                cs.add(b)
        # ---- context-insensitive: plain global graph
        gsucc: List[List[int]] = [[] for _ in range(nb)]
        for b in range(nb):
            if not ok[b]:
                continue
            if kind[b] == "call":
                gsucc[b] = [callee[b]]
            elif kind[b] == "ret":
                f = self.region[b]
                gsucc[b] = [succ[c][0] for c in self.callsites.get(f, []) if succ[c]]
            else:
                gsucc[b] = list(succ[b])
        fwd = set()
        stack = [0]
        while stack:
            b = stack.pop()
            if b in fwd or not ok[b]:
                continue
            fwd.add(b)
            stack.extend(gsucc[b])
        gpred: List[List[int]] = [[] for _ in range(nb)]
        for b in fwd:
            for s in gsucc[b]:
                gpred[s].append(b)
        bwd = set()
        stack = [b for b in fwd if leaf[b] and kind[b] != "call"]
        while stack:
            b = stack.pop()
            if b in bwd:
                continue
            bwd.add(b)
            stack.extend(p for p in gpred[b] if p in fwd)
        ci = fwd & bwd
        return cs, ci

    def accepting_leaves(self, val) -> List[int]:
        ok, leaf, kind, succ = self.restrict(val)
        return [b for b in range(self.nb) if leaf[b] and ok[b]]
