"""Property-based verification framework for crytic/tealer (see /verif/DESIGN.md)."""
