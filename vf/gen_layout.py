"""G1 - layout generator: executable programs with adversarial control-flow layouts.

Every slot is stack-neutral (its body pushes exactly what its terminator pops), so the program can
be executed by R-AVM along any path and branch outcomes depend on the inputs.
"""
from __future__ import annotations

from typing import List

from hypothesis import strategies as st

from vf.ir import I, L

OPAQUE = ["FirstValid", "Amount", "Fee", "LastValid"]
CMP = ["<", "<=", ">", ">=", "==", "!="]

EXCLUDED_COUNT = {"n": 0}
NAME_POOL = ["f", "ff", "fff", "xf", "g", "fg", "n__"]  # nearly every pair: one name is a suffix of the other (n__ of __main__)
NAME_POOL_2 = ["even", "is_even", "check_is_even", "sub", "retsub_", "b_", "callsub1", "ret", "main_"]


@st.composite
def cond_body(draw) -> List[list]:
    k = draw(st.integers(0, 5))
    if k == 0:
        return [I("int", draw(st.sampled_from([0, 1, 1, 2])))]
    f = draw(st.sampled_from(OPAQUE))
    c = draw(st.sampled_from([0, 1, 2, 3, 1000, 5]))
    return [I("txn", f), I("int", c), I(draw(st.sampled_from(CMP)))]


@st.composite
def filler(draw) -> List[list]:
    k = draw(st.integers(0, 6))
    if k <= 2:
        return []
    if k == 3:
        return [I("int", draw(st.integers(0, 9))), I("pop")]
    if k == 4:
        return [I("txn", draw(st.sampled_from(OPAQUE))), I("pop")]
    if k == 5:
        return [I("int", 1), I("int", 2), I("+"), I("pop")]
    return [I("int", 7), I("store", draw(st.integers(0, 3)))]


@st.composite
def layout_program(draw, structured: bool = True, max_slots: int = 10, max_subs: int = 3, min_version: int = 2, reuse_targets: bool = False):
    version = draw(st.sampled_from([8, 8, 8, 8, 7, 6, 5, 4, 4, 3, 2]))
    version = max(version, min_version)
    can_call = version >= 4
    can_back = version >= 4
    can_multi = version >= 8
    nsubs = draw(st.integers(0, max_subs)) if can_call else 0
    if not structured and can_call:
        nsubs = draw(st.integers(0, 2))
    sub_names = [f"sub{k}" for k in range(nsubs)]
    if nsubs and draw(st.booleans()):
        # hand-written names, several of them prefixes / suffixes / substrings of one another
        pool = NAME_POOL if draw(st.booleans()) else NAME_POOL + NAME_POOL_2
        sub_names = draw(st.lists(st.sampled_from(pool), min_size=nsubs, max_size=nsubs, unique=True))

    # regions: list of (name, nslots)
    regions = [("main", draw(st.integers(1, max_slots)))]
    for s in sub_names:
        regions.append((s, draw(st.integers(1, max(1, max_slots // 2)))))
    subs_first = structured and nsubs > 0 and draw(st.booleans())
    if subs_first:
        regions = regions[1:] + regions[:1]
    elif structured and nsubs > 1 and draw(st.booleans()):
        regions = regions[:1] + regions[:0:-1]

    # labels per slot
    slot_labels = {}
    region_labels = {}
    for rname, ns in regions:
        labs_r = []
        for i in range(ns):
            labs = []
            if rname != "main" and i == 0:
                labs.append(rname)
                if draw(st.integers(0, 5)) == 0:
                    labs.append(f"{rname}_alias")
            else:
                nl = draw(st.sampled_from([0, 1, 1, 1, 2]))
                for j in range(nl):
                    labs.append(f"{rname}_{i}{'ab'[j]}")
            slot_labels[(rname, i)] = labs
            labs_r.extend((l, i) for l in labs)
        region_labels[rname] = labs_r
    all_labels = [(l, r, i) for r, _ in regions for l, i in region_labels[r]]

    def pick_targets(rname, i, n, order_pos):
        """n labels, assembler-valid for this version"""
        if structured:
            pool = [(l, j) for l, j in region_labels[rname] if not (rname != "main" and l == rname and False)]
            if not can_back:
                pool = [(l, j) for l, j in pool if j > i]
            cands = [l for l, _ in pool]
        else:
            pool = all_labels
            if not can_back:
                pool = [(l, r, j) for l, r, j in pool if (order_pos[r], j) > (order_pos[rname], i)]
            cands = [p[0] for p in pool]
        if not cands:
            return None
        got = []
        for _ in range(n):
            again = [l for l in used_targets if l in cands]
            if reuse_targets and again and draw(st.booleans()):
                # several branches of a region go to one and the same block (a shared reject / exit block)
                got.append(draw(st.sampled_from(again)))
            else:
                got.append(draw(st.sampled_from(cands)))
        used_targets.extend(got)
        return got

    order_pos = {r: k for k, (r, _) in enumerate(regions)}
    used_targets: List[str] = []
    items: List[list] = []
    if subs_first:
        # jump over the subroutine bodies into main
        main_entry = "main_entry"
        items.append(I("b", main_entry))
    for ridx, (rname, ns) in enumerate(regions):
        last_region = ridx == len(regions) - 1
        if subs_first and rname == "main":
            items.append(L("main_entry"))
        for i in range(ns):
            for l in slot_labels[(rname, i)]:
                items.append(L(l))
            last_slot = i == ns - 1
            kinds = ["fall"] * 5 + ["bz", "bnz"] * 3 + ["b"] * 2 + ["return"] * 2 + ["err"]
            if can_multi:
                kinds += ["switch", "match"]
            if can_call and (nsubs > 0):
                kinds += ["callsub"] * 3
            if can_call and (rname != "main" or not structured):
                kinds += ["retsub"] * 2
            if reuse_targets and can_back and structured:
                kinds += ["skiprej"] * 3
            kind = draw(st.sampled_from(kinds))
            if structured and last_slot and not last_region and kind in ("fall", "bz", "bnz", "switch", "match", "callsub", "skiprej"):
                # a region never falls through into the next one
                kind = draw(st.sampled_from(["return", "err", "b"] + (["retsub"] * 3 if rname != "main" else [])))
            if structured and last_slot and last_region and kind == "fall" and draw(st.booleans()):
                kind = "return"
            body: List[list] = []
            if kind == "fall":
                body = draw(filler())
            elif kind in ("bz", "bnz"):
                t = pick_targets(rname, i, 1, order_pos)
                body = draw(cond_body()) + [I(kind, t[0])] if t else draw(filler())
            elif kind == "b":
                t = pick_targets(rname, i, 1, order_pos)
                body = [I("b", t[0])] if t else [I("int", 1), I("return")]
            elif kind == "switch":
                t = pick_targets(rname, i, draw(st.integers(1, 4)), order_pos)
                body = [I("txn", "FirstValid"), I("switch", *t)] if t else draw(filler())
            elif kind == "match":
                t = pick_targets(rname, i, draw(st.integers(1, 3)), order_pos)
                if t:
                    body = [I("int", k + 1) for k in range(len(t))] + [I("txn", "FirstValid"), I("match", *t)]
                else:
                    body = draw(filler())
            elif kind == "callsub":
                if structured:
                    tgt = draw(st.sampled_from(sub_names))
                else:
                    tgt = draw(st.sampled_from([l for l, _, _ in all_labels] or ["?"]))
                    if tgt == "?":
                        tgt = None
                body = draw(filler()) + ([I("callsub", tgt)] if tgt else [])
            elif kind == "retsub":
                body = draw(filler()) + [I("retsub")]
            elif kind == "return":
                r = draw(st.integers(0, 5))
                body = (draw(cond_body()) if r == 0 else [I("int", 0 if r == 1 else 1)]) + [I("return")]
            elif kind == "skiprej":
                # hand-written dispatcher idiom: `c; bnz next; reject: err; next:` - the shared reject block sits
                # in the fall-through and later code jumps back to it
                rej, nxt = f"{rname}_rej{i}", f"{rname}_nx{i}"
                body = draw(cond_body()) + [I("bnz", nxt), L(rej), I("err"), L(nxt)]
                region_labels[rname].append((rej, i))
                all_labels.append((rej, rname, i))
                used_targets.extend([rej, rej])
            elif kind == "err":
                body = [I("err")]
            items.extend(body)
    # optional label at the very end of the file
    if draw(st.integers(0, 7)) == 0:
        items.append(L("end_label"))
        if draw(st.booleans()) and (not structured or regions[-1][0] == "main"):
            # make something branch to it
            items.insert(0, I("int", 0))
            items.insert(1, I("bnz", "end_label"))
    if not items or all(it[0] == "L" for it in items):
        items.append(I("int", 1))
    return {"version": version, "items": items, "structured": structured}
