"""CLI: python -m vf.replay <replay.json> -- re-run one saved case without Hypothesis."""
import sys


def main() -> int:
    from vf import env  # noqa: F401
    from vf.core import replay_file
    import json

    path = sys.argv[1]
    v = replay_file(path)
    with open(path, encoding="utf-8") as f:
        pid = json.load(f)["property"]
    if v is None:
        print(f"replay {path}: property {pid} holds on this case")
        return 0
    print(f"VIOLATION property={pid} replay={path}")
    print(f"  clause={v.clause} detail={v.detail}")
    return 1


if __name__ == "__main__":
    sys.exit(main())
