"""Regenerate /verif/MANIFEST.json from the table below (python -m vf.mkmanifest)."""
import json
import os

ROOT = os.path.dirname(os.path.dirname(os.path.abspath(__file__)))

CHECKS = {
    "C16": dict(
        text="Generated-input search (Hypothesis, 16 shards) over TEAL source lines drawn from an independent opcode/immediate grammar (R-OPS), with an exhaustive opcode x field grid; oracle = generator-side truth against parse_line, an independent recogniser of the printed form, and the parse/print round trip. Exploration, not proof: holds on everything generated.",
        note="Trusted: vf/rops.py + vf/linegram.py (reference grammar, cross-checked against PyTeal's tables at setup); lexical corners whose assembler treatment cannot be established offline are excluded by construction and listed in the evidence.",
        technique="property-based testing: grammar-based generation + round-trip + differential recogniser",
        design="DESIGN.md section 2 C16",
    ),
    "C04": dict(
        text="Generated-input search over executable programs with adversarial layouts (dead code branching/calling into live code, back edges, branch to next line, branch/call as last instruction, structured and unstructured subroutines). Two oracles: validity predicates of tealer's blocks against an independently built reference CFG, and every concrete reference-interpreter execution (accepted or rejected) must be a walk in tealer's graph with matched call/return; a third component checks the block lists of functions cut out by drawn dispatch paths (off-path successors replaced in place, bz/bnz successor order, mirrored lists). Exploration.",
        note="Trusted: vf/rcfg.py (reference CFG from the flat instruction list), vf/ravm.py (reference interpreter, self-tested in setup), generator emits assembler-valid programs by construction.",
        technique="property-based testing: differential against reference CFG + execution-trace walk check",
        design="DESIGN.md section 2 C04",
    ),
    "C05": dict(
        text="Generated-input search over structured programs with 0-6 subroutines; tealer's subroutine set, block membership, exit/retsub blocks, callee and return point of each call site, caller/return-point tables (Subroutine and Function) and the call-graph DOT export are compared with the reference CFG. Exploration.",
        note="Trusted: vf/rcfg.py; the statement's silence on whether a callsub that is the last instruction is an exit block is honoured (both accepted).",
        technique="property-based testing: differential against reference CFG, DOT export parsed back",
        design="DESIGN.md section 2 C05",
    ),
    "C20": dict(
        text="Generated-input search over programs x labels x patterns (windows of the program text, mutated/absent, overlapping); reported matches must equal the reference set of reachable straight-line occurrences, and 'covered' must lie between 'on a simple path from the label to a match' and 'can reach a match'. Exploration.",
        note="Trusted: vf/rcfg.py instruction graph; windows whose verdict differs between 'consecutive in source' and 'unique successor chain' are excluded by construction and counted; the lower bound on covered uses simple paths only (weakest reading of the statement).",
        technique="property-based testing: reference-model comparison over an instruction graph",
        design="DESIGN.md section 2 C20",
    ),
    "C01": dict(
        text="Generated-input search: semantic generator (typed mini-AST lowered with random placement choices) x nine detectors; a reference AVM interpreter with lazy valuation search looks for an approved transaction carrying the detector's dangerous value; a witness obliges the detector to report >= 1 path. Exploration: holds on everything generated; root causes already known are excluded by construction and replayed as KNOWN-FINDING.",
        note='Trusted: vf/ravm.py (reference AVM interpreter for the modelled fragment, self-tested at setup), vf/rcfg.py, generator-side condition annotations; witnesses are well-formed transactions only; the valuation search is capped by run count (a cap can hide a violation, never invent one).',
        technique="property-based testing: reference-interpreter witnesses (existential oracle) vs detector verdict",
        design="DESIGN.md section 2 C01",
    ),
    "C02": dict(
        text="Generated-input search; every reported path of every detector is validated by an independent path checker (explicit call stack over the reference CFG, termination block, no revisit per activation, dangerous value not excluded at any block by the public contexts, renderings denote the block sequence). Exploration.",
        note="Trusted: vf/rcfg.py; the exclusion predicates are re-implemented from the detector documentation and evaluated on tealer's public context objects.",
        technique="property-based testing: validity predicate over every reported path",
        design="DESIGN.md section 2 C02",
    ),
    "C03": dict(
        text="Generated-input search over direct-check programs; the literal-reading oracle decides whether any accepting walk admits the dangerous value; if none, the detector must report nothing (two-field detectors: one field at a time). Components: own `txn F` checks (logic-sig, application), pinned position (`txn GroupIndex == i` asserted first, checks spelled `gtxn i F`), all slots (`gtxn 0..15 F`). Protected and unprotected programs are both produced and counted. Exploration.",
        note="Trusted: vf/rlit.py (literal-reading oracle: per-value restricted graph + interprocedural reachability with matched calls) fed by the generator's condition annotations; precision is only asserted on the direct-check fragment.",
        technique="property-based testing: reference model (literal reading) implies empty report",
        design="DESIGN.md section 2 C03",
    ),
    "C06": dict(
        text="Generated-input search; soundness by reference-interpreter executions (size/index of every accepted execution must be listed at every block of its trace), exactness on the direct-check fragment by two-sided comparison with the literal-reading oracle (context-sensitive lower bound, context-insensitive upper bound). Exploration.",
        note="Trusted: vf/ravm.py (reference AVM interpreter for the modelled fragment, self-tested at setup), vf/rcfg.py, generator-side condition annotations; witnesses are well-formed transactions only; the valuation search is capped by run count (a cap can hide a violation, never invent one). Trusted: vf/rlit.py (literal-reading oracle: per-value restricted graph + interprocedural reachability with matched calls) fed by the generator's condition annotations; precision is only asserted on the direct-check fragment.",
        technique="property-based testing: reference interpreter (soundness) + reference model two-sided bounds (exactness)",
        design="DESIGN.md section 2 C06",
    ),
    "C07": dict(
        text="Generated-input search; reference-interpreter executions whose governed transaction can be pay / axfer / appl+Update / appl+Delete must find that kind in the set of every block on the trace. Exploration; one known finding (OnCompletion/ApplicationID checks read as 'is an application call') excluded by construction.",
        note='Trusted: vf/ravm.py (reference AVM interpreter for the modelled fragment, self-tested at setup), vf/rcfg.py, generator-side condition annotations; witnesses are well-formed transactions only; the valuation search is capped by run count (a cap can hide a violation, never invent one).',
        technique="property-based testing: reference-interpreter witnesses vs per-block sets",
        design="DESIGN.md section 2 C07",
    ),
    "C08": dict(
        text="Generated-input search; soundness by reference-interpreter executions (every approved non-zero address must be admitted by the block's information), converse on the direct-check fragment by the literal-reading oracle (no 'any address' where every accepting path pins the field). Exploration.",
        note="Trusted: vf/ravm.py (reference AVM interpreter for the modelled fragment, self-tested at setup), vf/rcfg.py, generator-side condition annotations; witnesses are well-formed transactions only; the valuation search is capped by run count (a cap can hide a violation, never invent one). Trusted: vf/rlit.py (literal-reading oracle: per-value restricted graph + interprocedural reachability with matched calls) fed by the generator's condition annotations; precision is only asserted on the direct-check fragment.",
        technique="property-based testing: reference interpreter + reference model",
        design="DESIGN.md section 2 C08",
    ),
    "C09": dict(
        text="Generated-input search for soundness (approved fee <= reported bound) and for the structural clause (no bound <= 272000 where an accepting path admits 2^64-1), plus exhaustive enumeration of the finite single-direct-check family (forms of Fee<=c, Fee<c, Fee==c x mirrored x negated x consumer x 12 constants) for exact bounds. Exploration + exhaustive finite family.",
        note="Trusted: vf/ravm.py (reference AVM interpreter for the modelled fragment, self-tested at setup), vf/rcfg.py, generator-side condition annotations; witnesses are well-formed transactions only; the valuation search is capped by run count (a cap can hide a violation, never invent one). Trusted: vf/rlit.py (literal-reading oracle: per-value restricted graph + interprocedural reachability with matched calls) fed by the generator's condition annotations; precision is only asserted on the direct-check fragment.",
        technique="property-based testing: reference interpreter + exhaustive enumeration of a finite family",
        design="DESIGN.md section 2 C09",
    ),
    "C17": dict(
        text="Generated-input search; every generated contract is run through tealer's command line in-process in seven modes (detect text/JSON, five printers); any exception, non-zero exit, 'Error:' line, unparseable JSON or missing/empty output file is a violation. Exploration.",
        note="Trusted: generators emit assembler-valid programs whose subroutine bodies are entered only through callsub; the CLI is driven through tealer.__main__.main with patched argv (a subprocess is not used in the quick tier).",
        technique="property-based testing: robustness oracle (completes without internal error) over generated programs x CLI modes",
        design="DESIGN.md section 2 C17",
    ),
    "C11": dict(
        text="Exhaustive table check of tealer's (pop, push) per opcode x immediate shape against the reference stack effects, plus generated-input search over straight-line blocks of the whole opcode set: the producer tealer reconstructs for every operand must be the value the AVM passes there; compute_equations must return exactly the leaves of the maximal &&/|| tree. Exploration + exhaustive finite table.",
        note="Trusted: vf/rops.py stack effects (written from the AVM specification, windows of shuffling opcodes validated against their data-movement semantics in the setup self-test). One known finding (frame_bury push size, pinned by the repository's own fixture) is excluded by construction.",
        technique="property-based testing: differential against a reference stack-effect model; exhaustive opcode table",
        design="DESIGN.md section 2 C11",
    ),
    "C19": dict(
        text="Exhaustive grid opcode x field x declared version for the 'not supported' diagnostics, generated mixtures of mode-specific opcodes for mode / mixture / contract type / application-vs-logic-sig analysis, generated straight-line blocks for per-block cost against the reference cost table. Exhaustive finite grid + exploration.",
        note="Trusted: vf/rops.py (introduction versions, modes, costs; versions and modes cross-checked against PyTeal's independent tables at setup). Entries marked uncertain (method pseudo-op, input-dependent costs of base64_decode/json_ref) are generated but not asserted.",
        technique="property-based testing: differential against reference tables; exhaustive grid",
        design="DESIGN.md section 2 C19",
    ),
    "C10": dict(
        text="Generated-input search over programs that read group members by absolute index and by offset; reference-interpreter executions on concrete groups must be admitted by absolute_context(i), gtxn_context(own index) and relative_context(k) at every block of the trace; per-index contexts of indices the block's own index set excludes must be empty. Exploration.",
        note='Trusted: vf/ravm.py (reference AVM interpreter for the modelled fragment, self-tested at setup), vf/rcfg.py, generator-side condition annotations; witnesses are well-formed transactions only; the valuation search is capped by run count (a cap can hide a violation, never invent one).',
        technique="property-based testing: reference-interpreter witnesses on concrete groups vs per-member contexts",
        design="DESIGN.md section 2 C10",
    ),
    "C12": dict(
        text="Generated-input search over programs x root-to-block dispatch paths x build orders; structural validity of the function (copied main blocks, error blocks exactly at off-path successors, shared subroutines), soundness of its contexts for the reference executions that start with the path, independence from other functions built, an unchanged structural snapshot of the contract's own graph, and agreement of the functions listed together in a group configuration file with the same functions built alone. Exploration.",
        note='Trusted: vf/ravm.py (reference AVM interpreter for the modelled fragment, self-tested at setup), vf/rcfg.py, generator-side condition annotations; witnesses are well-formed transactions only; the valuation search is capped by run count (a cap can hide a violation, never invent one).',
        technique="property-based testing: reference model + metamorphic (build order) + invariant (contract graph unchanged)",
        design="DESIGN.md section 2 C12",
    ),
    "C13": dict(
        text="Generated-input search over group configurations (1-3 transactions, logic-sigs/applications, absolute indices and offsets) written as YAML + .teal files; a joint reference search over concrete groups on which every configured contract accepts obliges the detector to list a transaction that carries the dangerous value; single transaction + single contract: verdict must equal the single-contract verdict. Exploration. The 'cleared' (precision) half of the statement is only checked through the single-contract equivalence.",
        note='Trusted: vf/ravm.py (reference AVM interpreter for the modelled fragment, self-tested at setup), vf/rcfg.py, generator-side condition annotations; witnesses are well-formed transactions only; the valuation search is capped by run count (a cap can hide a violation, never invent one).',
        technique="property-based testing: reference group semantics (existential witnesses) + differential single vs group mode",
        design="DESIGN.md section 2 C13",
    ),
    "C14": dict(
        text="Generated histories (pool of programs, decorated with instruction pairs the instruction-listing detectors report and with address comparisons against run-time values, x sequences of analyse / detect over all 12 detectors in drawn order and repetition / several contracts in one run / rebuild function / printer) in one process; after every step the canonical snapshot must equal the baseline computed for the program alone in a fresh subprocess; a second fresh subprocess under another PYTHONHASHSEED must give byte-identical output; contexts are compared before/after detectors. Exploration over histories.",
        note="Trusted: the snapshot canonicalisation (sets sorted, path order and JSON bytes exact). Fresh-process baselines are real subprocesses of /venv/bin/python.",
        technique="property-based testing: history (operation-sequence) generation against a fresh-process baseline; hash-seed differential",
        design="DESIGN.md section 2 C14",
    ),
    "C15": dict(
        text="Metamorphic testing: generated program + drawn composition of the eight listed meaning-preserving rewrites; contexts of blocks that hold the same instructions and the instruction sequences of the reported paths must be identical for original and rewritten contract. Exploration.",
        note="Trusted: the rewrites are meaning preserving by construction (padding only at statement boundaries recorded by the generator; subroutine moves by re-lowering the same AST).",
        technique="property-based testing: metamorphic relation (same meaning => same result)",
        design="DESIGN.md section 2 C15",
    ),
    "C18": dict(
        text="Generated programs run through the CLI in-process; an independent DOT reader compares cfg / subroutine-cfg / path / transaction-context exports with the reference graph, the reported paths and the computed contexts; JSON count/success (with and without a provoked error) and --filter-paths against an independent re.search. Exploration.",
        note="Trusted: vf/dotparse.py (independent reader of the DOT format), vf/rcfg.py.",
        technique="property-based testing: round trip through the exported artefacts against reference graph and API results",
        design="DESIGN.md section 2 C18",
    ),
}

NOT_BUILT = "check not built yet in this session (work in progress; see DESIGN.md section 2 for the planned oracle)"

ALL = [f"C{i:02d}" for i in range(1, 21)]


def main():
    checks = []
    for pid, c in CHECKS.items():
        checks.append({
            "property_id": pid,
            "quick_cmd": f"./check.sh {pid} quick",
            "thorough_cmd": f"./check.sh {pid} thorough",
            "evidence_file": f"evidence/{pid}.json",
            "replay_cmd_template": "PYTHONPATH=/verif /venv/bin/python -m vf.replay {path}",
            "engine": "vf",
            "level_claimed": {"category": "exploration", "text": c["text"], "design_ref": c["design"]},
            "level_note": c["note"],
            "technique": c["technique"],
        })
    manifest = {
        "version": 1,
        "setup_cmd": "./setup.sh",
        "hooks": {
            "guard": "TEALER_VERIF",
            "enable": "no hooks: checks import tealer from /repo's working tree (pure Python, PYTHONPATH=/repo first); the guard name is reserved and unused",
            "baseline_off_cmd": "cd /repo && /venv/bin/python -m pytest -ra -q -p no:cacheprovider --timeout=900 --continue-on-collection-errors",
            "source_commits": [],
            "add_only": True,
        },
        "engines": [{
            "name": "vf",
            "path": "vf/",
            "serves_properties": sorted(CHECKS),
            "kind_free_text": "Hypothesis 6.168 property-based testing, 16 sharded worker processes, reference oracles (R-OPS, R-CFG, R-AVM, R-LIT) written independently of tealer",
        }],
        "checks": checks,
        "not_applicable": [{"property_id": p, "reason": NOT_BUILT} for p in ALL if p not in CHECKS],
        "notes": "Every check: exit 0 = held on everything generated (KNOWN-FINDING lines for listed findings), exit 1 + VIOLATION line = unlisted violation, exit 2 = harness error. VERIF_SEED selects the Hypothesis seeds (seed*1000+shard).",
    }
    with open(os.path.join(ROOT, "MANIFEST.json"), "w", encoding="utf-8") as f:
        json.dump(manifest, f, indent=1)


if __name__ == "__main__":
    main()
