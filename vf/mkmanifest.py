"""Regenerate /verif/MANIFEST.json from the table below (python -m vf.mkmanifest)."""
import json
import os

ROOT = os.path.dirname(os.path.dirname(os.path.abspath(__file__)))

CHECKS = {
    "C16": dict(
        text="Generated-input search (Hypothesis, 16 shards) over TEAL source lines drawn from an independent opcode/immediate grammar (R-OPS), with an exhaustive opcode x field grid; oracle = generator-side truth against parse_line, an independent recogniser of the printed form, and the parse/print round trip. Exploration, not proof: holds on everything generated.",
        note="Trusted: vf/rops.py + vf/linegram.py (reference grammar, cross-checked against PyTeal's tables at setup); lexical corners whose assembler treatment cannot be established offline are excluded by construction and listed in the evidence.",
        technique="property-based testing: grammar-based generation + round-trip + differential recogniser",
        design="DESIGN.md section 2 C16",
    ),
    "C04": dict(
        text="Generated-input search over executable programs with adversarial layouts (dead code branching/calling into live code, back edges, branch to next line, branch/call as last instruction, structured and unstructured subroutines). Two oracles: validity predicates of tealer's blocks against an independently built reference CFG, and every concrete reference-interpreter execution (accepted or rejected) must be a walk in tealer's graph with matched call/return. Exploration.",
        note="Trusted: vf/rcfg.py (reference CFG from the flat instruction list), vf/ravm.py (reference interpreter, self-tested in setup), generator emits assembler-valid programs by construction.",
        technique="property-based testing: differential against reference CFG + execution-trace walk check",
        design="DESIGN.md section 2 C04",
    ),
    "C05": dict(
        text="Generated-input search over structured programs with 0-6 subroutines; tealer's subroutine set, block membership, exit/retsub blocks, callee and return point of each call site, caller/return-point tables (Subroutine and Function) and the call-graph DOT export are compared with the reference CFG. Exploration.",
        note="Trusted: vf/rcfg.py; the statement's silence on whether a callsub that is the last instruction is an exit block is honoured (both accepted).",
        technique="property-based testing: differential against reference CFG, DOT export parsed back",
        design="DESIGN.md section 2 C05",
    ),
    "C20": dict(
        text="Generated-input search over programs x labels x patterns (windows of the program text, mutated/absent, overlapping); reported matches must equal the reference set of reachable straight-line occurrences, and 'covered' must lie between 'on a simple path from the label to a match' and 'can reach a match'. Exploration.",
        note="Trusted: vf/rcfg.py instruction graph; windows whose verdict differs between 'consecutive in source' and 'unique successor chain' are excluded by construction and counted; the lower bound on covered uses simple paths only (weakest reading of the statement).",
        technique="property-based testing: reference-model comparison over an instruction graph",
        design="DESIGN.md section 2 C20",
    ),
}

NOT_BUILT = "check not built yet in this session (work in progress; see DESIGN.md section 2 for the planned oracle)"

ALL = [f"C{i:02d}" for i in range(1, 21)]


def main():
    checks = []
    for pid, c in CHECKS.items():
        checks.append({
            "property_id": pid,
            "quick_cmd": f"./check.sh {pid} quick",
            "thorough_cmd": f"./check.sh {pid} thorough",
            "evidence_file": f"evidence/{pid}.json",
            "replay_cmd_template": "PYTHONPATH=/verif /venv/bin/python -m vf.replay {path}",
            "engine": "vf",
            "level_claimed": {"category": "exploration", "text": c["text"], "design_ref": c["design"]},
            "level_note": c["note"],
            "technique": c["technique"],
        })
    manifest = {
        "version": 1,
        "setup_cmd": "./setup.sh",
        "hooks": {
            "guard": "TEALER_VERIF",
            "enable": "no hooks: checks import tealer from /repo's working tree (pure Python, PYTHONPATH=/repo first); the guard name is reserved and unused",
            "baseline_off_cmd": "cd /repo && /venv/bin/python -m pytest -ra -q -p no:cacheprovider --timeout=900 --continue-on-collection-errors",
            "source_commits": [],
            "add_only": True,
        },
        "engines": [{
            "name": "vf",
            "path": "vf/",
            "serves_properties": sorted(CHECKS),
            "kind_free_text": "Hypothesis 6.168 property-based testing, 16 sharded worker processes, reference oracles (R-OPS, R-CFG, R-AVM, R-LIT) written independently of tealer",
        }],
        "checks": checks,
        "not_applicable": [{"property_id": p, "reason": NOT_BUILT} for p in ALL if p not in CHECKS],
        "notes": "Every check: exit 0 = held on everything generated (KNOWN-FINDING lines for listed findings), exit 1 + VIOLATION line = unlisted violation, exit 2 = harness error. VERIF_SEED selects the Hypothesis seeds (seed*1000+shard).",
    }
    with open(os.path.join(ROOT, "MANIFEST.json"), "w", encoding="utf-8") as f:
        json.dump(manifest, f, indent=1)


if __name__ == "__main__":
    main()
