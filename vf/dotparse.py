"""Independent reader for the DOT files tealer writes."""
from __future__ import annotations

import html
import re
from typing import Dict, List, Tuple

NODE_RE = re.compile(r'^(\d+)\[label=<<TABLE ALIGN="LEFT" COLOR="([^"]+)">\n(.*?)</TABLE>> labelloc=top shape=plain\n\]', re.S | re.M)
ROW_RE = re.compile(r"<TR><TD ([^>]*)>(.*?)</TD></TR>", re.S)
EDGE_RE = re.compile(r'(\d+):s -> (\d+):(\d+):n \[color="([^"]+)"\];')
BOX_RE = re.compile(r'(x\d+_\w+)\[label="Subroutine ([^"]*)",style=dashed,shape=box,fontname=bold\]')
BOX_IN_RE = re.compile(r"(\d+):s -> (x\d+_\w+):n;")
BOX_OUT_RE = re.compile(r"(x\d+_\w+):s -> (\d+):(\d+):n;")


class DotGraph:
    def __init__(self, text: str):
        self.text = text
        self.nodes: Dict[int, dict] = {}
        for m in NODE_RE.finditer(text):
            idx = int(m.group(1))
            rows = ROW_RE.findall(m.group(3))
            comments: List[str] = []
            ins: List[Tuple[int, str, str]] = []
            port = None
            for attrs, content in rows:
                if "PORT=" in attrs:
                    port = int(re.search(r'PORT="(\d+)"', attrs).group(1))
                    inner = re.sub(r"</?B>", "", content)
                    comments = [html.unescape(c)[3:] if c.startswith("// ") else html.unescape(c) for c in inner.split("<BR/>") if c]
                    continue
                last = content.split("<BR/>")[-1]
                last = re.sub(r"</?[BI]>", "", last)
                mm = re.match(r"(\d+)\. (.*)$", last, re.S)
                if mm:
                    color = re.search(r'COLOR="([^"]+)"', attrs).group(1)
                    ins.append((int(mm.group(1)), html.unescape(mm.group(2)), color))
            if idx in self.nodes:
                raise ValueError(f"node {idx} defined twice")
            self.nodes[idx] = {"color": m.group(2), "comments": comments, "ins": ins, "port": port}
        self.edges: List[Tuple[int, int, int, str]] = [(int(a), int(b), int(p), c) for a, b, p, c in EDGE_RE.findall(text)]
        self.boxes = {name: sub for name, sub in BOX_RE.findall(text)}
        self.box_in = [(int(a), b) for a, b in BOX_IN_RE.findall(text)]
        self.box_out = [(a, int(b), int(p)) for a, b, p in BOX_OUT_RE.findall(text)]

    def entry_line(self, idx: int) -> int:
        return self.nodes[idx]["ins"][0][0]

    def edge_lines(self) -> List[Tuple[int, int]]:
        """edges as (entry line of source block, entry line of destination block)"""
        return [(self.entry_line(a), self.entry_line(b)) for a, b, _, _ in self.edges]


def decode_ranges(s: str) -> List[int]:
    out: List[int] = []
    for tok in s.split():
        if ".." in tok:
            a, b = tok.split("..")
            out.extend(range(int(a), int(b) + 1))
        else:
            out.append(int(tok))
    return out
