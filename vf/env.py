"""Import tealer from /repo's working tree (never from a stale copy) and silence its logging."""
import logging
import os
import sys

REPO = os.environ.get("TEALER_REPO", "/repo")
if REPO not in sys.path:
    sys.path.insert(0, REPO)
sys.dont_write_bytecode = True
os.environ.setdefault("PYTHONDONTWRITEBYTECODE", "1")
logging.disable(logging.CRITICAL)
# tealer's path search and DFS helpers are recursive; the generated programs need a few hundred frames.
# Keep the limit far below what would overflow the C stack, so that a runaway recursion in the code
# under test surfaces as RecursionError (a reportable internal error) and never as a dead worker.
if sys.getrecursionlimit() < 3000:
    sys.setrecursionlimit(3000)

# printers / detector output write below TEALER_ROOT_OUTPUT_DIR (read once, at import of tealer.utils.output)
import atexit  # noqa: E402
import shutil  # noqa: E402
import tempfile  # noqa: E402

_MAIN_PID = os.getpid()
OUT_ROOT = tempfile.mkdtemp(prefix="vf_out_")
os.environ["TEALER_ROOT_OUTPUT_DIR"] = OUT_ROOT


def _cleanup():
    if os.getpid() == _MAIN_PID:
        shutil.rmtree(OUT_ROOT, ignore_errors=True)


atexit.register(_cleanup)


def out_dir(name: str) -> str:
    """directory tealer will use for contract `name`"""
    return os.path.join(OUT_ROOT, name)

import tealer  # noqa: E402,F401

_p = os.path.realpath(os.path.dirname(os.path.dirname(tealer.__file__)))
if _p != os.path.realpath(REPO):
    raise RuntimeError(f"tealer imported from {_p}, expected {REPO}")

