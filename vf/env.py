"""Import tealer from /repo's working tree (never from a stale copy) and silence its logging."""
import logging
import os
import sys

REPO = os.environ.get("TEALER_REPO", "/repo")
if REPO not in sys.path:
    sys.path.insert(0, REPO)
sys.dont_write_bytecode = True
os.environ.setdefault("PYTHONDONTWRITEBYTECODE", "1")
logging.disable(logging.CRITICAL)
if sys.getrecursionlimit() < 20000:
    sys.setrecursionlimit(20000)

import tealer  # noqa: E402

_p = os.path.realpath(os.path.dirname(os.path.dirname(tealer.__file__)))
if _p != os.path.realpath(REPO):
    raise RuntimeError(f"tealer imported from {_p}, expected {REPO}")
