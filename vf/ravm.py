"""R-AVM: reference interpreter for the modelled TEAL fragment + lazy valuation search.

Executes the reference instruction sequence (vf.rcfg.RCFG.seq), never tealer's parse.
Values: uint64 = int, byte strings/addresses = bytes.  Anything outside the fragment raises
Unmodelled (the generators never produce it).
"""
from __future__ import annotations

from typing import Any, Dict, Iterator, List, Optional, Tuple

from vf import rops
from vf.rcfg import RCFG

MAXU64 = (1 << 64) - 1
ZERO = b"AAAAAAAAAAAAAAAAAAAAAAAAAAAAAAAAAAAAAAAAAAAAAAAAAAAAY5HFKQ"
ATTACKER = b"ATTACKERATTACKERATTACKERATTACKERATTACKERATTACKERATTACKER22"
CREATOR = b"CREATORCREATORCREATORCREATORCREATORCREATORCREATORCREATOR234"
BUDGET = 700
MAX_CALL_DEPTH = 8

INT_FIELDS = {
    "Fee", "FirstValid", "LastValid", "Amount", "TypeEnum", "OnCompletion", "ApplicationID",
    "GroupIndex", "NumAppArgs", "AssetAmount", "XferAsset", "NumAccounts",
}
ADDR_FIELDS = {"Sender", "Receiver", "RekeyTo", "CloseRemainderTo", "AssetCloseTo", "AssetReceiver", "AssetSender"}
BYTES_FIELDS = {"Note", "Lease"}
APP_ONLY_GLOBALS = rops.GLOBAL_FIELDS_APP_ONLY
GLOBAL_CONSTS = {"MinTxnFee": 1000, "MinBalance": 100000, "MaxTxnLife": 1000, "LogicSigVersion": 8,
                 "Round": 1000000, "LatestTimestamp": 1700000000, "CurrentApplicationID": 77, "OpcodeBudget": 700}


class Unmodelled(Exception):
    pass


class Need(Exception):
    """execution needs the value of an unassigned input"""

    def __init__(self, key):
        super().__init__(str(key))
        self.key = key


class Panic(Exception):
    pass


def parse_int_tok(tok: str) -> int:
    tok = str(tok)
    if tok in rops.TYPE_ENUM_NAMES:
        return rops.TYPE_ENUM_NAMES[tok]
    if tok in rops.ON_COMPLETION_NAMES:
        return rops.ON_COMPLETION_NAMES[tok]
    if tok.startswith("0x"):
        return int(tok[2:], 16)
    if len(tok) > 1 and tok.startswith("0"):
        return int(tok, 8)
    return int(tok)


class Env:
    """A (partial) concrete transaction group + the position of the governed transaction."""

    def __init__(self, mode: str = "lsig"):
        self.mode = mode  # 'lsig' or 'app'
        self.size: Optional[int] = None
        self.index: Optional[int] = None
        self.own: Dict[str, Any] = {}
        self.members: Dict[int, Dict[str, Any]] = {}

    def copy(self) -> "Env":
        e = Env(self.mode)
        e.size, e.index = self.size, self.index
        e.own = dict(self.own)
        e.members = {k: dict(v) for k, v in self.members.items()}
        return e

    def own_fields(self) -> Dict[str, Any]:
        if self.index is not None:
            return self.members.setdefault(self.index, {})
        return self.own

    def set_index(self, idx: int) -> bool:
        """fix GroupIndex; merge 'own' into the member at that position. False if inconsistent."""
        self.index = idx
        m = self.members.setdefault(idx, {})
        for k, v in self.own.items():
            if k in m and m[k] != v:
                return False
            m[k] = v
        self.own = {}
        return True

    def assign(self, key, value) -> bool:
        if key == "GroupSize":
            self.size = value
            return self.index is None or self.index < value
        if key == "GroupIndex":
            if self.size is not None and value >= self.size:
                return False
            return self.set_index(value)
        who, field = key
        if who == "own":
            self.own_fields()[field] = value
        else:
            self.members.setdefault(who, {})[field] = value
        return True

    def describe(self) -> dict:
        def enc(v):
            return v.decode() if isinstance(v, bytes) else v

        d = {"mode": self.mode, "GroupSize": self.size, "GroupIndex": self.index}
        if self.own:
            d["own"] = {k: enc(v) for k, v in self.own.items()}
        for i, m in sorted(self.members.items()):
            d[f"gtxn{i}"] = {k: enc(v) for k, v in m.items()}
        return d


class Result:
    __slots__ = ("accepted", "reason", "trace", "abs_index_read", "cost")

    def __init__(self, accepted, reason, trace, abs_index_read, cost):
        self.accepted = accepted
        self.reason = reason
        self.trace = trace  # executed node indices (rcfg.seq)
        self.abs_index_read = abs_index_read
        self.cost = cost


def run(g: RCFG, env: Env) -> Result:
    """Execute with the (partial) env; raises Need(key) when an unassigned input is read."""
    seq = g.seq
    n = g.n
    stack: List[Any] = []
    scratch: Dict[int, Any] = {}
    callstack: List[int] = []
    intc: Optional[List[int]] = None
    bytec: Optional[List[bytes]] = None
    trace: List[int] = []
    pc = 0
    cost = 0
    abs_read = False

    def pop():
        if not stack:
            raise Panic("stack underflow")
        return stack.pop()

    def pop_int():
        v = pop()
        if not isinstance(v, int):
            raise Panic("expected uint64")
        return v

    def member_field(i: int, field: str):
        if env.size is None:
            raise Need("GroupSize")
        if i >= env.size:
            raise Panic("gtxn index out of range")
        if env.index is None:
            raise Need("GroupIndex")
        if field == "GroupIndex":
            return i
        m = env.members.get(i, {})
        if field not in m:
            raise Need((i, field))
        return m[field]

    def own_field(field: str):
        if field == "GroupIndex":
            if env.index is None:
                raise Need("GroupIndex")
            return env.index
        m = env.own_fields()
        if field not in m:
            raise Need(("own", field))
        return m[field]

    def check_field(field: str):
        if field not in INT_FIELDS and field not in ADDR_FIELDS and field not in BYTES_FIELDS:
            raise Unmodelled(f"field {field}")

    try:
        while pc < n:
            nd = seq[pc]
            op = nd.op
            trace.append(pc)
            if op in ("label", "#pragma"):
                pc += 1
                continue
            cost += 1
            if cost > BUDGET:
                return Result(False, "budget", trace, abs_read, cost)
            imm = nd.imm
            nxt = pc + 1
            if op in ("int", "pushint"):
                stack.append(parse_int_tok(imm[0]))
            elif op == "intcblock":
                intc = [parse_int_tok(t) for t in imm]
            elif op in ("intc", "intc_0", "intc_1", "intc_2", "intc_3"):
                k = parse_int_tok(imm[0]) if op == "intc" else int(op[-1])
                if intc is None or k >= len(intc):
                    raise Panic("intc out of range")
                stack.append(intc[k])
            elif op == "addr":
                stack.append(str(imm[0]).encode())
            elif op in ("byte", "pushbytes"):
                from vf.linegram import decode_bytes_tokens

                d = decode_bytes_tokens([str(t) for t in imm])
                if d is None or len(d) != 1:
                    raise Unmodelled("byte literal")
                stack.append(b"B:" + d[0])
            elif op == "txn":
                check_field(imm[0])
                stack.append(own_field(imm[0]))
            elif op == "gtxn":
                check_field(imm[1])
                v = member_field(parse_int_tok(imm[0]), imm[1])
                if parse_int_tok(imm[0]) != env.index:
                    abs_read = True  # reads *another* transaction by absolute index
                stack.append(v)
            elif op == "gtxns":
                check_field(imm[0])
                i = pop_int()
                v = member_field(i, imm[0])
                if len(trace) >= 2 and seq[trace[-2]].op in ("int", "pushint", "intc", "intc_0", "intc_1", "intc_2", "intc_3") and i != env.index:
                    abs_read = True
                stack.append(v)
            elif op == "global":
                f = imm[0]
                if f == "GroupSize":
                    if env.size is None:
                        raise Need("GroupSize")
                    stack.append(env.size)
                elif f == "ZeroAddress":
                    stack.append(ZERO)
                elif f == "CreatorAddress":
                    if env.mode != "app":
                        raise Panic("CreatorAddress in signature mode")
                    stack.append(CREATOR)
                elif f in GLOBAL_CONSTS:
                    if f in APP_ONLY_GLOBALS and env.mode != "app":
                        raise Panic("application-only global")
                    stack.append(GLOBAL_CONSTS[f])
                else:
                    raise Unmodelled(f"global {f}")
            elif op in ("==", "!="):
                b, a = pop(), pop()
                if isinstance(a, int) != isinstance(b, int):
                    raise Panic("type mismatch")
                stack.append(int((a == b) == (op == "==")))
            elif op in ("<", "<=", ">", ">="):
                b, a = pop_int(), pop_int()
                stack.append(int({"<": a < b, "<=": a <= b, ">": a > b, ">=": a >= b}[op]))
            elif op == "&&":
                b, a = pop_int(), pop_int()
                stack.append(int(a != 0 and b != 0))
            elif op == "||":
                b, a = pop_int(), pop_int()
                stack.append(int(a != 0 or b != 0))
            elif op == "!":
                stack.append(int(pop_int() == 0))
            elif op == "+":
                b, a = pop_int(), pop_int()
                if a + b > MAXU64:
                    raise Panic("overflow")
                stack.append(a + b)
            elif op == "-":
                b, a = pop_int(), pop_int()
                if b > a:
                    raise Panic("underflow")
                stack.append(a - b)
            elif op == "*":
                b, a = pop_int(), pop_int()
                if a * b > MAXU64:
                    raise Panic("overflow")
                stack.append(a * b)
            elif op == "balance":
                if env.mode != "app":
                    raise Panic("balance in signature mode")
                pop()
                stack.append(5000000)
            elif op == "pop":
                pop()
            elif op == "dup":
                v = pop()
                stack.extend([v, v])
            elif op == "dup2":
                b, a = pop(), pop()
                stack.extend([a, b, a, b])
            elif op == "swap":
                b, a = pop(), pop()
                stack.extend([b, a])
            elif op == "dig":
                k = parse_int_tok(imm[0])
                if len(stack) <= k:
                    raise Panic("dig underflow")
                stack.append(stack[-1 - k])
            elif op == "cover":
                k = parse_int_tok(imm[0])
                if len(stack) <= k:
                    raise Panic("cover underflow")
                v = stack.pop()
                stack.insert(len(stack) - k, v)
            elif op == "uncover":
                k = parse_int_tok(imm[0])
                if len(stack) <= k:
                    raise Panic("uncover underflow")
                v = stack.pop(len(stack) - 1 - k)
                stack.append(v)
            elif op == "select":
                c, b, a = pop_int(), pop(), pop()
                stack.append(b if c != 0 else a)
            elif op == "load":
                stack.append(scratch.get(parse_int_tok(imm[0]), 0))
            elif op == "store":
                scratch[parse_int_tok(imm[0])] = pop()
            elif op == "assert":
                if pop_int() == 0:
                    return Result(False, "assert", trace, abs_read, cost)
            elif op == "err":
                return Result(False, "err", trace, abs_read, cost)
            elif op == "return":
                v = pop()
                ok = isinstance(v, int) and v != 0
                return Result(ok, "return", trace, abs_read, cost)
            elif op == "b":
                nxt = g.label_at[imm[0]]
            elif op == "bz":
                if pop_int() == 0:
                    nxt = g.label_at[imm[0]]
            elif op == "bnz":
                if pop_int() != 0:
                    nxt = g.label_at[imm[0]]
            elif op == "switch":
                v = pop_int()
                if v < len(imm):
                    nxt = g.label_at[imm[v]]
            elif op == "match":
                v = pop()
                if len(stack) < len(imm):
                    raise Panic("match underflow")
                cases = [stack.pop() for _ in imm][::-1]
                for k, c in enumerate(cases):
                    if isinstance(c, int) == isinstance(v, int) and c == v:
                        nxt = g.label_at[imm[k]]
                        break
            elif op == "callsub":
                if len(callstack) >= MAX_CALL_DEPTH:
                    raise Panic("call depth")
                callstack.append(pc + 1)
                nxt = g.label_at[imm[0]]
            elif op == "retsub":
                if not callstack:
                    raise Panic("retsub with empty call stack")
                nxt = callstack.pop()
            else:
                raise Unmodelled(op)
            if len(stack) > 1000:
                raise Panic("stack overflow")
            pc = nxt
    except Panic as p:
        return Result(False, f"panic: {p}", trace, abs_read, cost)
    ok = len(stack) == 1 and isinstance(stack[0], int) and stack[0] != 0
    return Result(ok, "end", trace, abs_read, cost)


# ------------------------------------------------------------------ well-formed transactions
def member_feasible(m: Dict[str, Any], is_own: bool, mode: str) -> bool:
    """Can the partially assigned member be completed to a transaction the network could carry?"""
    types = {1, 2, 3, 4, 5, 6}
    g = m.get
    if g("CloseRemainderTo", ZERO) != ZERO or g("Receiver", ZERO) != ZERO or g("Amount", 0) != 0:
        types &= {1}
    if (
        g("AssetCloseTo", ZERO) != ZERO
        or g("AssetReceiver", ZERO) != ZERO
        or g("AssetSender", ZERO) != ZERO
        or g("AssetAmount", 0) != 0
        or g("XferAsset", 0) != 0
    ):
        types &= {4}
    if g("OnCompletion", 0) != 0 or g("ApplicationID", 0) != 0 or g("NumAppArgs", 0) != 0 or g("NumAccounts", 0) != 0:
        types &= {6}
    if is_own and mode == "app":
        types &= {6}
        if g("OnCompletion", 0) == 3:
            return False  # ClearState runs the clear-state program, not this one
    if "TypeEnum" in m:
        types &= {m["TypeEnum"]}
    if not types:
        return False
    if "ApplicationID" in m and m["ApplicationID"] == 0 and g("OnCompletion", 0) in (4, 5):
        return False  # creation with Update/Delete: validity unknown offline, never used as witness
    if g("Sender", ATTACKER) == ZERO:
        return False
    if g("FirstValid", 0) > g("LastValid", MAXU64):
        return False
    return True


def env_feasible(env: Env) -> bool:
    if env.size is not None and not 1 <= env.size <= 16:
        return False
    if env.index is not None and env.size is not None and env.index >= env.size:
        return False
    if env.index is None:
        if not member_feasible(env.own, True, env.mode):
            return False
    for i, m in env.members.items():
        if env.size is not None and i >= env.size and m:
            return False
        if not member_feasible(m, env.index == i, env.mode):
            return False
    return True


def complete_member(m: Dict[str, Any], is_own: bool, mode: str) -> Dict[str, Any]:
    """Fill the detector-relevant fields a witness leaves free (for reporting / context checks)."""
    out = dict(m)
    if "TypeEnum" not in out:
        for t in (6, 1, 4, 2, 3, 5):
            c = dict(out)
            c["TypeEnum"] = t
            if member_feasible(c, is_own, mode):
                out = c
                break
    return out


# ------------------------------------------------------------------ valuation search
class Domains:
    """Representative value sets, derived from the constants the program mentions."""

    def __init__(self, g: RCFG):
        consts = set()
        addrs = []
        uses_creator = False
        for nd in g.seq:
            if nd.op in ("int", "pushint", "intc"):
                try:
                    consts.add(parse_int_tok(nd.imm[0]))
                except ValueError:
                    pass
            elif nd.op == "intcblock":
                for t in nd.imm:
                    consts.add(parse_int_tok(t))
            elif nd.op == "addr":
                a = str(nd.imm[0]).encode()
                if a != ZERO and a not in addrs:
                    addrs.append(a)
            elif nd.op == "global" and nd.imm[0] == "CreatorAddress":
                uses_creator = True
        self.consts = consts
        ints = {0, 1, MAXU64}
        for c in consts:
            for d in (c - 1, c, c + 1):
                if 0 <= d <= MAXU64:
                    ints.add(d)
        self.ints = sorted(ints)
        self.small = sorted({v for v in ints if v <= 16} | {0, 1, 15, 16})
        self.addrs = [ZERO, ATTACKER] + addrs + ([CREATOR] if uses_creator else [])
        self.fee = sorted(set(self.ints) | {1000, 272000, 272001})

    def for_key(self, key, env: Env) -> List[Any]:
        # positions and sizes: the extremes first (the search is depth first and capped; the largest group and the
        # last position are where off-by-one and index-width mistakes live)
        if key == "GroupSize":
            lo = (env.index + 1) if env.index is not None else 1
            vals = [v for v in self.small if lo <= v <= 16]
            return vals[-1:] + vals[:-1]
        if key == "GroupIndex":
            hi = (env.size - 1) if env.size is not None else 15
            vals = [v for v in self.small if 0 <= v <= hi]
            return vals[:1] + vals[-1:] + vals[1:-1] if len(vals) > 2 else vals
        _, field = key
        if field == "TypeEnum":
            return [1, 4, 6, 2, 3, 5]
        if field == "OnCompletion":
            return [0, 4, 5, 1, 2, 3]
        if field == "ApplicationID":
            return [77, 0]
        if field == "Fee":
            return self.fee
        if field in INT_FIELDS:
            return self.ints
        if field in ADDR_FIELDS:
            return self.addrs
        if field in BYTES_FIELDS:
            return [b"B:", b"B:x"]
        raise Unmodelled(str(key))


def search(g: RCFG, base: Env, cap: int = 1500, doms: Optional[Domains] = None,
           restrict: Optional[Dict[Any, List[Any]]] = None) -> Iterator[Tuple[Env, Result]]:
    """Depth-first enumeration of all completed executions over the representative domains.

    Inputs are chosen lazily (only when the execution reads them), so the enumeration is exact
    for the fields an execution actually depends on.  `restrict` narrows the domain of some keys
    (e.g. the governed field to its dangerous value).  Yields (env, result) for every complete run.
    Stops after `cap` interpreter runs (search.capped tells whether that happened).
    """
    doms = doms or Domains(g)
    restrict = restrict or {}
    stack = [base]
    runs = 0
    search.capped = False
    while stack:
        env = stack.pop()
        if runs >= cap:
            search.capped = True
            return
        runs += 1
        try:
            res = run(g, env)
        except Need as nd:
            key = nd.key
            if key in restrict:
                dom = list(restrict[key])
            elif isinstance(key, tuple) and key[0] == "own" and ("own", key[1]) in restrict:
                dom = list(restrict[("own", key[1])])
            elif isinstance(key, tuple) and env.index is not None and key[0] == env.index and ("own", key[1]) in restrict:
                dom = list(restrict[("own", key[1])])
            else:
                dom = doms.for_key(key, env)
            ext = []
            for v in dom:
                e2 = env.copy()
                if e2.assign(key, v) and env_feasible(e2):
                    ext.append(e2)
            stack.extend(reversed(ext))
            continue
        yield env, res
    search.runs = runs


search.capped = False
search.runs = 0


def flavour(g: RCFG) -> str:
    """'app' if the program uses an application-only opcode/global, 'lsig' if signature-only,
    'any' otherwise."""
    app = sig = False
    for nd in g.seq:
        if nd.op in rops.OPS:
            m = rops.OPS[nd.op].mode
            app |= m == "P"
            sig |= m == "S"
        if nd.op == "global" and nd.imm and nd.imm[0] in APP_ONLY_GLOBALS:
            app = True
    if app and sig:
        return "mixed"
    return "app" if app else ("lsig" if sig else "any")
