"""Canonical snapshot of tealer's results for one contract (used in-process and from a fresh
subprocess: python -m vf.snapshot < source)."""
from __future__ import annotations

import json
import sys
from typing import List, Optional


def snapshot_source(src: str, detectors: Optional[List[str]] = None, repeat: int = 1) -> dict:
    from vf import adapter
    from vf.adapter import DETECTOR_NAMES, OPT_DETECTOR_NAMES

    names = detectors if detectors is not None else list(DETECTOR_NAMES) + list(OPT_DETECTOR_NAMES)
    tl = adapter.init_single(src, "c")
    teal, fn = adapter.single_function(tl)
    before = adapter.function_contexts(fn, deep=True)
    res = {}
    if names:
        classes = adapter.detector_classes()
        with adapter.captured():
            for n in names:
                tl.register_detector(classes[n])
            for _ in range(repeat):
                results = tl.run_detectors()
            adapter.clear_caches()
        for det, r in zip(tl.detectors, results):
            if det.NAME in OPT_DETECTOR_NAMES:
                # no output object at all when the contract has no finding
                res[det.NAME] = {"paths": [], "json": json.dumps([o.to_json() for o in r], sort_keys=False)}
                continue
            out = r[0]
            res[det.NAME] = {
                "paths": [[b.entry_instr.line for b in p] for p in out.paths],
                "json": json.dumps(out.to_json(), sort_keys=False),
            }
    after = adapter.function_contexts(fn, deep=True)
    return {"contexts": {str(k): v for k, v in before.items()}, "contexts_after": {str(k): v for k, v in after.items()}, "detectors": res}


def main() -> int:
    from vf import env  # noqa: F401

    src = sys.stdin.read()
    snap = snapshot_source(src)
    sys.stdout.write(json.dumps(snap, sort_keys=True))
    return 0


if __name__ == "__main__":
    sys.exit(main())
