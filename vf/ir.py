"""Program IR (plain JSON-able data), rendering to TEAL text, line map.

program = {"version": int|None, "items": [item...], "deco": {str(idx): {...}} (optional)}
item    = ["L", name] | ["I", op, [immediate tokens...]] (+ optional 4th element: annotation dict)
Rendering gives the TEAL text and, per item, its 1-based source line, so that every comparison
with tealer goes through line numbers / instruction text, never through tealer's own objects.
"""
from __future__ import annotations

from typing import Any, Dict, List, Optional, Tuple

BRANCH1 = ("b", "bz", "bnz")
BRANCHN = ("switch", "match")
TERMINAL = ("err", "return", "retsub")


def L(name: str) -> list:
    return ["L", name]


def I(op: str, *imm: Any) -> list:
    return ["I", op, [str(x) if not isinstance(x, str) else x for x in imm]]


def is_label(it) -> bool:
    return it[0] == "L"


def op_of(it) -> Optional[str]:
    return it[1] if it[0] == "I" else None


def targets(it) -> List[str]:
    if it[0] != "I":
        return []
    if it[1] in BRANCH1 or it[1] == "callsub":
        return [it[2][0]]
    if it[1] in BRANCHN:
        return list(it[2])
    return []


def item_text(it) -> str:
    if it[0] == "L":
        return it[1] + ":"
    return " ".join([it[1]] + [str(x) for x in it[2]])


def render(program: dict) -> Tuple[str, List[int]]:
    """-> (source text, line number (1-based) of each item)"""
    lines: List[str] = []
    line_of: List[int] = []
    deco: Dict[str, dict] = program.get("deco") or {}
    pre0 = deco.get("head", {}).get("pre", [])
    lines.extend(pre0)
    if program.get("version") is not None:
        lines.append(f"#pragma version {program['version']}")
    for idx, it in enumerate(program["items"]):
        d = deco.get(str(idx), {})
        lines.extend(d.get("pre", []))
        txt = d.get("text") or item_text(it)
        lines.append(d.get("indent", "") + txt + (d.get("comment", "")))
        line_of.append(len(lines))
    lines.extend(deco.get("tail", {}).get("pre", []))
    return "\n".join(lines) + "\n", line_of


def pragma_line(program: dict) -> Optional[int]:
    if program.get("version") is None:
        return None
    deco = program.get("deco") or {}
    return len(deco.get("head", {}).get("pre", [])) + 1


def label_index(program: dict) -> Dict[str, int]:
    out: Dict[str, int] = {}
    for i, it in enumerate(program["items"]):
        if it[0] == "L":
            out[it[1]] = i
    return out


def well_formed(program: dict) -> bool:
    """every referenced label defined exactly once"""
    seen = set()
    for it in program["items"]:
        if it[0] == "L":
            if it[1] in seen:
                return False
            seen.add(it[1])
    for it in program["items"]:
        for t in targets(it):
            if t not in seen:
                return False
    return True
