"""R-CFG: reference control-flow construction from the flat IR, independent of tealer.

Everything is keyed by 1-based source line so it can be compared with tealer's blocks.
"""
from __future__ import annotations

from typing import Dict, List, Optional, Set

from vf import ir

ENDS_BLOCK = ("b", "bz", "bnz", "switch", "match", "callsub", "err", "return", "retsub")


class Node:
    __slots__ = ("idx", "line", "op", "imm", "text", "item_idx")

    def __init__(self, idx, line, op, imm, text, item_idx):
        self.idx = idx
        self.line = line
        self.op = op  # '#pragma', 'label' or opcode
        self.imm = imm
        self.text = text
        self.item_idx = item_idx

    def __repr__(self):
        return f"<{self.line}:{self.text}>"


class RCFG:
    def __init__(self, program: dict):
        self.program = program
        self.text, self.line_of = ir.render(program)
        self.seq: List[Node] = []
        if program.get("version") is not None:
            self.seq.append(Node(0, ir.pragma_line(program), "#pragma", [program["version"]], f"#pragma version {program['version']}", None))
        for k, it in enumerate(program["items"]):
            idx = len(self.seq)
            if it[0] == "L":
                self.seq.append(Node(idx, self.line_of[k], "label", [it[1]], it[1] + ":", k))
            else:
                self.seq.append(Node(idx, self.line_of[k], it[1], list(it[2]), ir.item_text(it), k))
        self.n = len(self.seq)
        self.label_at: Dict[str, int] = {nd.imm[0]: nd.idx for nd in self.seq if nd.op == "label"}
        self.by_line: Dict[int, Node] = {nd.line: nd for nd in self.seq}
        # ---- instruction-level successors (fall-through first, then jump targets in order)
        self.succ: List[List[int]] = []
        for nd in self.seq:
            nxt = nd.idx + 1 if nd.idx + 1 < self.n else None
            s: List[int] = []
            if nd.op in ("err", "return", "retsub"):
                pass
            elif nd.op == "b":
                s.append(self.label_at[nd.imm[0]])
            elif nd.op in ("bz", "bnz"):
                if nxt is not None:
                    s.append(nxt)
                s.append(self.label_at[nd.imm[0]])
            elif nd.op in ("switch", "match"):
                if nxt is not None:
                    s.append(nxt)
                for l in nd.imm:
                    s.append(self.label_at[l])
            else:
                if nxt is not None:
                    s.append(nxt)
            self.succ.append(s)
        # ---- subroutines: labels targeted by any callsub in the source
        self.sub_entry: Dict[str, int] = {}
        for nd in self.seq:
            if nd.op == "callsub":
                self.sub_entry.setdefault(nd.imm[0], self.label_at[nd.imm[0]])
        # ---- retained instructions
        self.retained: Set[int] = set()
        roots = [0] + list(self.sub_entry.values())
        for r in roots:
            self._reach(r, self.retained)
        # ---- reference blocks (maximal) over retained instructions
        targeted: Set[int] = set(self.sub_entry.values())
        for nd in self.seq:
            if nd.idx in self.retained and nd.op in ("b", "bz", "bnz", "switch", "match"):
                for l in nd.imm:
                    targeted.add(self.label_at[l])
        self.targeted = targeted
        self.blocks: List[List[int]] = []
        self.block_of: Dict[int, int] = {}
        cur: List[int] = []
        prev_idx: Optional[int] = None
        for nd in self.seq:
            if nd.idx not in self.retained:
                continue
            new = (
                not cur
                or prev_idx != nd.idx - 1
                or nd.op == "label"
                or self.seq[prev_idx].op in ENDS_BLOCK
            )
            if new and cur:
                self.blocks.append(cur)
                cur = []
            cur.append(nd.idx)
            prev_idx = nd.idx
        if cur:
            self.blocks.append(cur)
        for b, blk in enumerate(self.blocks):
            for i in blk:
                self.block_of[i] = b

    def _reach(self, root: int, acc: Set[int]) -> None:
        stack = [root]
        while stack:
            i = stack.pop()
            if i in acc:
                continue
            acc.add(i)
            stack.extend(self.succ[i])

    # ---------------------------------------------------------------- helpers keyed by line
    def retained_lines(self) -> List[int]:
        return [self.seq[i].line for i in sorted(self.retained)]

    def succ_lines(self, line: int) -> List[int]:
        """ordered, deduplicated successor lines of the instruction at `line`"""
        out: List[int] = []
        for s in self.succ[self.by_line[line].idx]:
            l = self.seq[s].line
            if l not in out:
                out.append(l)
        return out

    def reach_from(self, root_line: int, follow_calls: bool = False) -> Set[int]:
        """lines reachable from root at instruction level (callsub continues at the next instruction;
        with follow_calls also enters the callee)"""
        acc: Set[int] = set()
        stack = [self.by_line[root_line].idx]
        while stack:
            i = stack.pop()
            if i in acc:
                continue
            acc.add(i)
            stack.extend(self.succ[i])
            if follow_calls and self.seq[i].op == "callsub":
                stack.append(self.label_at[self.seq[i].imm[0]])
        return {self.seq[i].line for i in acc}

    def subroutine_lines(self, name: str) -> Set[int]:
        return self.reach_from(self.seq[self.sub_entry[name]].line)

    def main_lines(self) -> Set[int]:
        return self.reach_from(self.seq[0].line)

    def callsites(self) -> List[Node]:
        """retained callsub instructions"""
        return [nd for nd in self.seq if nd.op == "callsub" and nd.idx in self.retained]

    def return_point_line(self, callsub_line: int) -> Optional[int]:
        i = self.by_line[callsub_line].idx
        return self.seq[i + 1].line if i + 1 < self.n else None

    def has_back_edge(self) -> bool:
        for nd in self.seq:
            if nd.idx in self.retained:
                for s in self.succ[nd.idx]:
                    if s <= nd.idx:
                        return True
        return False

    def features(self) -> List[str]:
        """layout features of this program (measured, not assumed)"""
        f: List[str] = []
        dead = [nd for nd in self.seq if nd.idx not in self.retained]
        if dead:
            f.append("dead_code")
            for nd in dead:
                live_succ = {s for s in self.succ[nd.idx] if s in self.retained}
                if nd.op in ("b", "bz", "bnz", "switch", "match") or (live_succ and nd.op != "callsub"):
                    if len(live_succ) >= 2:
                        f.append("dead_block_two_live_successors")
                    elif len(live_succ) == 1:
                        f.append("dead_code_into_live")
                if nd.op == "callsub":
                    f.append("dead_callsite")
        if self.has_back_edge():
            f.append("back_edge")
        for nd in self.seq:
            if nd.idx not in self.retained:
                continue
            if nd.op in ("bz", "bnz", "b") and self.label_at[nd.imm[0]] == nd.idx + 1:
                f.append("branch_to_next_line")
            if nd.idx == self.n - 1 and nd.op in ("bz", "bnz", "b", "switch", "match"):
                f.append("branch_last_instruction")
            if nd.idx == self.n - 1 and nd.op == "callsub":
                f.append("callsub_last_instruction")
            if nd.idx == self.n - 1 and nd.op == "label":
                f.append("label_at_end")
            if nd.op == "label" and nd.idx + 1 < self.n and self.seq[nd.idx + 1].op == "label":
                f.append("back_to_back_labels")
        if self.sub_entry:
            f.append("subroutines")
            for name, e in self.sub_entry.items():
                if e + 1 < self.n and self.seq[e + 1].op == "retsub":
                    f.append("empty_subroutine")
            sites: Dict[str, int] = {}
            for nd in self.callsites():
                sites[nd.imm[0]] = sites.get(nd.imm[0], 0) + 1
            if any(v >= 2 for v in sites.values()):
                f.append("shared_subroutine")
            for name in self.sub_entry:
                lines = self.subroutine_lines(name)
                for nd in self.callsites():
                    if nd.line in lines and nd.imm[0] == name:
                        f.append("recursion")
        return sorted(set(f))
