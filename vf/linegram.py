"""TEAL line grammar derived from R-OPS: Hypothesis strategies that produce a source line
together with what it denotes, and an independent recogniser for printed instructions.
"""
from __future__ import annotations

import base64
from typing import Any, List, Optional, Tuple

from hypothesis import strategies as st

from vf import rops

MAXU64 = (1 << 64) - 1

ADDRS = [
    "AAAAAAAAAAAAAAAAAAAAAAAAAAAAAAAAAAAAAAAAAAAAAAAAAAAAY5HFKQ",  # zero address
    "7ZUECA7HFLZTXENRV24SHLU4AVPUTMTTDUFUBNBD64C73F3UHRTHAIOF6Q",
    "VCMJKWOY5P5P7SKMZFFOCEROPJCZOTIJMNIYNUCKH7LRO45JMJP6UYBIJA",
    "GD64YIY3TWGDMCNPP553DZPPR6LDUSFQOIJVFDPPXWEG3FVOJCCDBBHU5A",
    "6Z3C3LDVWGMX23BMSYMANACQOSINPFIRF77H7N3AWJZYV6OH6GWTJKVMXY",
]

IDENT_CHARS = "abcdefghijklmnopqrstuvwxyzABCDEFGHIJKLMNOPQRSTUVWXYZ0123456789_"


# --------------------------------------------------------------------- spellings
def spell_int(v: int, style: int) -> str:
    """style 0 decimal, 1 hex, 2 octal"""
    if style == 1:
        # hex digits in either case (the assembler reads both); which one is a fixed function of the value
        return "0x" + format(v, "X") if v % 3 == 0 else hex(v)
    if style == 2:
        return "0" + oct(v)[2:] if v != 0 else "00"
    return str(v)


def decode_int(tok: str) -> Optional[int]:
    try:
        if tok.startswith("0x") or tok.startswith("0X"):
            return int(tok[2:], 16)
        if len(tok) > 1 and tok.startswith("0"):
            return int(tok, 8)
        return int(tok, 10)
    except ValueError:
        return None


u64_values = st.one_of(
    st.sampled_from([0, 1, 2, 7, 8, 9, 10, 15, 16, 63, 64, 255, 256, 1000, 272000, 272001, 2**32, 2**63, MAXU64 - 1, MAXU64]),
    st.integers(0, MAXU64),
    st.integers(0, 300),
)
u8_values = st.one_of(st.sampled_from([0, 1, 7, 8, 9, 10, 15, 16, 17, 64, 100, 255]), st.integers(0, 255))


@st.composite
def int_tok(draw, values=u64_values):
    v = draw(values)
    return spell_int(v, draw(st.integers(0, 2))), v


ESCAPES = {"n": b"\n", "t": b"\t", "r": b"\r", "\\": b"\\", '"': b'"'}


def decode_quoted(tok: str) -> Optional[bytes]:
    if len(tok) < 2 or tok[0] != '"' or tok[-1] != '"':
        return None
    body = tok[1:-1]
    out = b""
    i = 0
    while i < len(body):
        c = body[i]
        if c == "\\":
            i += 1
            if i >= len(body):
                return None
            e = body[i]
            if e in ESCAPES:
                out += ESCAPES[e]
            elif e == "x":
                try:
                    out += bytes([int(body[i + 1 : i + 3], 16)])
                except ValueError:
                    return None
                i += 2
            else:
                return None
        else:
            out += c.encode("utf-8")
        i += 1
    return out


def decode_bytes_tokens(toks: List[str]) -> Optional[List[bytes]]:
    """Decode a list of byte-literal tokens (any TEAL spelling) into byte strings."""
    out: List[bytes] = []
    i = 0
    try:
        while i < len(toks):
            t = toks[i]
            if t in ("base64", "b64"):
                s = toks[i + 1]
                out.append(base64.b64decode(s + "=" * (-len(s) % 4), validate=True))
                i += 2
            elif t in ("base32", "b32"):
                s = toks[i + 1].rstrip("=")
                out.append(base64.b32decode(s + "=" * (-len(s) % 8)))
                i += 2
            elif t.startswith("base64(") or t.startswith("b64("):
                s = t[t.index("(") + 1 : -1]
                out.append(base64.b64decode(s + "=" * (-len(s) % 4), validate=True))
                i += 1
            elif t.startswith("base32(") or t.startswith("b32("):
                s = t[t.index("(") + 1 : -1].rstrip("=")
                out.append(base64.b32decode(s + "=" * (-len(s) % 8)))
                i += 1
            elif t.startswith("0x"):
                out.append(bytes.fromhex(t[2:]))
                i += 1
            elif t.startswith('"'):
                d = decode_quoted(t)
                if d is None:
                    return None
                out.append(d)
                i += 1
            else:
                return None
    except (ValueError, IndexError):
        return None
    return out


@st.composite
def bytes_tok(draw, allow_slashes=True):
    """-> (list of source tokens forming one byte literal, decoded bytes, features)"""
    form = draw(st.sampled_from(["hex", "b64w", "b64p", "base64w", "base64p", "b32w", "b32p", "base32w", "base32p", "quoted"]))
    feats = [f"bytes_{form}"]
    if form == "quoted":
        parts = draw(
            st.lists(
                st.one_of(
                    st.sampled_from(["a", "b", "Z", "0", " ", "  ", "/", "//", "#", ":", "x", "(", ")", ";"][:-1]),
                    st.sampled_from(["\\n", "\\t", "\\\\", '\\"', "\\x41", "\\x00", "\\xff"]),
                ),
                max_size=8,
            )
        )
        body = "".join(parts)
        # a backslash directly before the closing quote is excluded by construction (see DESIGN C16)
        if body.endswith("\\\\"):
            body += "a"
        if "//" in body:
            feats.append("quoted_with_slashes")
        if " " in body:
            feats.append("quoted_with_space")
        tok = '"' + body + '"'
        val = decode_quoted(tok)
        assert val is not None
        return [tok], val, feats
    data = draw(st.one_of(st.binary(max_size=12), st.sampled_from([b"", b"\x00", b"\xff\xff", b"\x00\x0f\xff", b"\xfb\xff\xff"])))
    if form == "hex":
        return ["0x" + data.hex()], data, feats
    if not data:
        data = b"\x00"  # an empty base64/base32 word is not a token

    if form.startswith("b64") or form.startswith("base64"):
        enc = base64.b64encode(data).decode()
        if draw(st.booleans()):
            enc = enc.rstrip("=") if False else enc  # the assembler requires padding: keep it
        if "//" in enc:
            if not allow_slashes:
                data = b"\x00\x01"
                enc = base64.b64encode(data).decode()
            else:
                feats.append("b64_with_slashes")
        kw = "b64" if form.startswith("b64") else "base64"
        if form.endswith("w"):
            return [kw, enc], data, feats
        return [f"{kw}({enc})"], data, feats
    enc = base64.b32encode(data).decode()
    if draw(st.booleans()):
        enc = enc.rstrip("=")
        feats.append("b32_nopad")
    kw = "b32" if form.startswith("b32") else "base32"
    if form.endswith("w"):
        return [kw, enc], data, feats
    return [f"{kw}({enc})"], data, feats


OPNAMES = sorted(rops.OPS)
LABEL_POOL = ["l1", "main_l2", "b", "bz", "bnz_", "int1", "err_", "dup2x", "loop", "x", "return_", "callsub1", "L_0", "switch_", "len2", "b_", "popx", "assert1"]

# a label called base64/b64/base32/b32 switches the real assembler's tokenizer into "literal follows" mode;
# such names are excluded by construction
_RESERVED_WORDS = {"base64", "b64", "base32", "b32"}
label_names = st.one_of(
    st.sampled_from(LABEL_POOL),
    st.text(alphabet=IDENT_CHARS, min_size=1, max_size=8),
    st.builds(lambda op, suf: op + suf, st.sampled_from([o for o in OPNAMES if o[0].isalpha()]), st.sampled_from(["_", "1", "x", "_0", "2"])),
).filter(lambda n: n not in _RESERVED_WORDS)


@st.composite
def immediates(draw, name: str, allow_slashes=True):
    """-> (source tokens, denoted values, features) for opcode `name`"""
    op = rops.OPS[name]
    toks: List[str] = []
    vals: List[Any] = []
    feats: List[str] = []
    for kind in op.imm:
        if kind == "u8":
            t, v = draw(int_tok(u8_values))
            toks.append(t)
            vals.append(v)
            if not t.isdigit() or (len(t) > 1 and t[0] == "0"):
                feats.append("int_nondecimal")
        elif kind == "u8opt":
            if draw(st.booleans()):
                t, v = draw(int_tok(u8_values))
                toks.append(t)
                vals.append(v)
        elif kind == "i8":
            v = draw(st.integers(-128, 127))
            toks.append(str(v))
            vals.append(v)
        elif kind == "u64":
            if name == "int" and draw(st.integers(0, 3)) == 0:
                table = draw(st.sampled_from([rops.TYPE_ENUM_NAMES, rops.ON_COMPLETION_NAMES]))
                nm = draw(st.sampled_from(sorted(table)))
                toks.append(nm)
                vals.append(table[nm])
                feats.append("named_constant")
            else:
                t, v = draw(int_tok())
                toks.append(t)
                vals.append(v)
                if not t.isdigit() or (len(t) > 1 and t[0] == "0"):
                    feats.append("int_nondecimal")
        elif kind in rops.FIELD_FAMILIES:
            f = draw(st.sampled_from(sorted(rops.FIELD_FAMILIES[kind])))
            toks.append(f)
            vals.append(f)
        elif kind == "txnf_any":
            f = draw(st.sampled_from(sorted(rops.TXN_FIELDS) + sorted(rops.TXN_ARRAY_FIELDS)))
            toks.append(f)
            vals.append(f)
        elif kind == "label":
            l = draw(label_names)
            toks.append(l)
            vals.append(l)
        elif kind == "labels":
            ls = draw(st.lists(label_names, min_size=1, max_size=5))
            toks.extend(ls)
            vals.append(ls)
        elif kind == "ints":
            pairs = draw(st.lists(int_tok(), min_size=0 if name == "intcblock" else 1, max_size=6))
            toks.extend(p[0] for p in pairs)
            vals.append([p[1] for p in pairs])
            if any(not p[0].isdigit() or (len(p[0]) > 1 and p[0][0] == "0") for p in pairs):
                feats.append("int_nondecimal")
        elif kind == "bytes":
            t, v, f = draw(bytes_tok(allow_slashes))
            toks.extend(t)
            vals.append(v.hex())
            feats.extend(f)
        elif kind == "bytess":
            items = draw(st.lists(bytes_tok(allow_slashes), min_size=1, max_size=5))
            for t, v, f in items:
                toks.extend(t)
                feats.extend(f)
            vals.append([v.hex() for _, v, _ in items])
        elif kind == "ecdsa":
            f = draw(st.sampled_from(sorted(rops.ECDSA_CURVES)))
            toks.append(f)
            vals.append(f)
        elif kind == "b64enc":
            f = draw(st.sampled_from(rops.BASE64_ENCODINGS))
            toks.append(f)
            vals.append(f)
        elif kind == "jsont":
            f = draw(st.sampled_from(rops.JSON_TYPES))
            toks.append(f)
            vals.append(f)
        elif kind == "vrfstd":
            f = draw(st.sampled_from(rops.VRF_STANDARDS))
            toks.append(f)
            vals.append(f)
        elif kind == "blockf":
            f = draw(st.sampled_from(rops.BLOCK_FIELDS))
            toks.append(f)
            vals.append(f)
        elif kind == "addr":
            a = draw(st.sampled_from(ADDRS))
            toks.append(a)
            vals.append(a)
        elif kind == "method":
            # the assembler hashes the raw text between the outer quotes (no unescaping; a non ARC-4 signature
            # only draws a warning); the tokenizer keeps a quoted literal with spaces, `//` and \" in one token
            sig = draw(st.sampled_from(["a()void", "hello(string)string", "f(uint64,byte[])uint64", "x(address)bool",
                                        'say\\"hi\\"', '\\"q()void', "a b()void", "a//b()void", 'f(\\")void', "", '\\"']))
            toks.append('"' + sig + '"')
            vals.append(sig)
        else:
            raise AssertionError(kind)
    return toks, vals, feats


ws = st.sampled_from([" ", "  ", "\t", " \t ", "   "])
indent = st.sampled_from(["", "", " ", "    ", "\t", "\t\t", "  \t"])
comment_text = st.sampled_from(
    ["", "", "", "// c", "//", "// int 5", '// "quoted"', "// a // b", "//bnz x", "// label:", "// 0x00", '// "', "//\tTab"]
)


@st.composite
def source_line(draw, name: Optional[str] = None, allow_slashes=True):
    """One instruction line: (text, name, values, features)"""
    if name is None:
        name = draw(st.sampled_from(OPNAMES))
    toks, vals, feats = draw(immediates(name, allow_slashes))
    text = draw(indent) + name
    for t in toks:
        text += draw(ws) + t
    c = draw(comment_text)
    if c:
        text += draw(ws) + c
        feats.append("trailing_comment")
    else:
        text += draw(st.sampled_from(["", "", " ", "\t"]))
    return text, name, vals, feats


# --------------------------------------------------------------------- recogniser
def tokenize(line: str) -> Optional[List[str]]:
    """Split a TEAL line into tokens (quoted strings kept whole, trailing comment dropped)."""
    toks: List[str] = []
    i = 0
    n = len(line)
    while i < n:
        c = line[i]
        if c in " \t":
            i += 1
            continue
        if line.startswith("//", i):
            break
        if c == '"':
            j = i + 1
            while j < n:
                if line[j] == "\\":
                    j += 2
                    continue
                if line[j] == '"':
                    break
                j += 1
            if j >= n:
                return None
            toks.append(line[i : j + 1])
            i = j + 1
            continue
        j = i
        while j < n and line[j] not in " \t":
            j += 1
        toks.append(line[i:j])
        i = j
    return toks


def recognise(text: str) -> Optional[Tuple[str, List[Any]]]:
    """Parse a printed instruction with the R-OPS grammar -> (opcode, values) or None."""
    toks = tokenize(text)
    if not toks:
        return None
    name = toks[0]
    if name not in rops.OPS:
        return None
    op = rops.OPS[name]
    rest = toks[1:]
    vals: List[Any] = []
    pos = 0
    for k, kind in enumerate(op.imm):
        last = k == len(op.imm) - 1
        if kind == "u8opt":
            if pos < len(rest):
                v = decode_int(rest[pos])
                if v is None:
                    return None
                vals.append(v)
                pos += 1
            continue
        if kind in ("u8", "u64", "i8"):
            if pos >= len(rest):
                return None
            t = rest[pos]
            pos += 1
            if kind == "i8":
                try:
                    vals.append(int(t))
                except ValueError:
                    return None
                continue
            v = decode_int(t)
            if v is None and kind == "u64":
                if t in rops.TYPE_ENUM_NAMES:
                    v = rops.TYPE_ENUM_NAMES[t]
                elif t in rops.ON_COMPLETION_NAMES:
                    v = rops.ON_COMPLETION_NAMES[t]
            if v is None:
                return None
            vals.append(v)
        elif kind in rops.FIELD_FAMILIES or kind in ("txnf_any", "label", "ecdsa", "b64enc", "jsont", "vrfstd", "blockf", "addr"):
            if pos >= len(rest):
                return None
            vals.append(rest[pos])
            pos += 1
        elif kind == "labels":
            assert last
            vals.append(list(rest[pos:]))
            pos = len(rest)
        elif kind == "ints":
            assert last
            vs = [decode_int(t) for t in rest[pos:]]
            if any(v is None for v in vs):
                return None
            vals.append(vs)
            pos = len(rest)
        elif kind == "bytes":
            assert last
            d = decode_bytes_tokens(rest[pos:])
            if d is None or len(d) != 1:
                return None
            vals.append(d[0].hex())
            pos = len(rest)
        elif kind == "bytess":
            assert last
            d = decode_bytes_tokens(rest[pos:])
            if d is None:
                return None
            vals.append([x.hex() for x in d])
            pos = len(rest)
        elif kind == "method":
            if pos >= len(rest):
                return None
            t = rest[pos]
            pos += 1
            if not (t.startswith('"') and t.endswith('"')):
                return None
            vals.append(t[1:-1])
        else:
            raise AssertionError(kind)
    if pos != len(rest):
        return None
    return name, vals
