"""R-OPS: reference opcode / field tables written from the AVM specification (TEAL v1-v8).

Independent of tealer.  `vf.rops_check` cross-checks version/mode against the
tables that ship with PyTeal and prints disagreements (never an alarm).

Entry: name -> Op(version, mode, pops, pushes, imm, cost, kind)
  mode: 'A' any, 'S' signature only, 'P' application only
  imm : tuple of immediate kinds:
        'u8' uint8, 'u64' uint64/named const, 'txnf' txn field, 'txnaf' array txn field,
        'globalf', 'aholdf', 'aparamf', 'appparamf', 'acctparamf', 'label', 'labels',
        'bytes', 'bytess', 'ints', 'ecdsa', 'b64enc', 'jsont', 'vrfstd', 'blockf', 'addr',
        'method', 'i8' signed int8
  pops/pushes: int, or a callable(imm_values) -> int for immediate-dependent ops
  cost: int or callable(version, imm_values) -> int ; None = not asserted (input dependent)
"""
from __future__ import annotations

from collections import namedtuple
from typing import Dict

Op = namedtuple("Op", "version mode pops pushes imm cost kind certain")


def _op(version, mode, pops, pushes, imm=(), cost=1, kind="compute", certain=True):
    return Op(version, mode, pops, pushes, tuple(imm), cost, kind, certain)


def _hash_cost(v1, v2):
    return lambda version, imm: v1 if version < 2 else v2


def _ecdsa_cost(k1, r1):
    return lambda version, imm: k1 if imm[0] == "Secp256k1" else r1


OPS: Dict[str, Op] = {
    # ---- v1
    "err": _op(1, "A", 0, 0, kind="term"),
    "sha256": _op(1, "A", 1, 1, cost=_hash_cost(7, 35)),
    "keccak256": _op(1, "A", 1, 1, cost=_hash_cost(26, 130)),
    "sha512_256": _op(1, "A", 1, 1, cost=_hash_cost(9, 45)),
    # ed25519verify: signature-only in v1-v4, both modes from v5. mode is version dependent -> 'A?' not asserted
    "ed25519verify": _op(1, "A", 3, 1, cost=1900, certain=False),
    "+": _op(1, "A", 2, 1),
    "-": _op(1, "A", 2, 1),
    "/": _op(1, "A", 2, 1),
    "*": _op(1, "A", 2, 1),
    "<": _op(1, "A", 2, 1),
    ">": _op(1, "A", 2, 1),
    "<=": _op(1, "A", 2, 1),
    ">=": _op(1, "A", 2, 1),
    "&&": _op(1, "A", 2, 1),
    "||": _op(1, "A", 2, 1),
    "==": _op(1, "A", 2, 1),
    "!=": _op(1, "A", 2, 1),
    "!": _op(1, "A", 1, 1),
    "len": _op(1, "A", 1, 1),
    "itob": _op(1, "A", 1, 1),
    "btoi": _op(1, "A", 1, 1),
    "%": _op(1, "A", 2, 1),
    "|": _op(1, "A", 2, 1),
    "&": _op(1, "A", 2, 1),
    "^": _op(1, "A", 2, 1),
    "~": _op(1, "A", 1, 1),
    "mulw": _op(1, "A", 2, 2),
    "intcblock": _op(1, "A", 0, 0, ["ints"]),
    "intc": _op(1, "A", 0, 1, ["u8"]),
    "intc_0": _op(1, "A", 0, 1),
    "intc_1": _op(1, "A", 0, 1),
    "intc_2": _op(1, "A", 0, 1),
    "intc_3": _op(1, "A", 0, 1),
    "bytecblock": _op(1, "A", 0, 0, ["bytess"]),
    "bytec": _op(1, "A", 0, 1, ["u8"]),
    "bytec_0": _op(1, "A", 0, 1),
    "bytec_1": _op(1, "A", 0, 1),
    "bytec_2": _op(1, "A", 0, 1),
    "bytec_3": _op(1, "A", 0, 1),
    "arg": _op(1, "S", 0, 1, ["u8"]),
    "arg_0": _op(1, "S", 0, 1),
    "arg_1": _op(1, "S", 0, 1),
    "arg_2": _op(1, "S", 0, 1),
    "arg_3": _op(1, "S", 0, 1),
    "txn": _op(1, "A", 0, 1, ["txnf"]),
    "global": _op(1, "A", 0, 1, ["globalf"]),
    "gtxn": _op(1, "A", 0, 1, ["u8", "txnf"]),
    "load": _op(1, "A", 0, 1, ["u8"]),
    "store": _op(1, "A", 1, 0, ["u8"]),
    "bnz": _op(1, "A", 1, 0, ["label"], kind="branch"),
    "pop": _op(1, "A", 1, 0, kind="shuffle"),
    "dup": _op(1, "A", 1, 2, kind="shuffle"),
    # pseudo-ops of the assembler (available in every version that has the underlying opcode)
    "int": _op(1, "A", 0, 1, ["u64"]),
    "byte": _op(1, "A", 0, 1, ["bytes"]),
    "addr": _op(1, "A", 0, 1, ["addr"]),
    "method": _op(1, "A", 0, 1, ["method"], certain=False),
    # ---- v2
    "addw": _op(2, "A", 2, 2),
    "txna": _op(2, "A", 0, 1, ["txnaf", "u8"]),
    "gtxna": _op(2, "A", 0, 1, ["u8", "txnaf", "u8"]),
    "bz": _op(2, "A", 1, 0, ["label"], kind="branch"),
    "b": _op(2, "A", 0, 0, ["label"], kind="branch"),
    "return": _op(2, "A", 1, 0, kind="term"),
    "dup2": _op(2, "A", 2, 4, kind="shuffle"),
    "concat": _op(2, "A", 2, 1),
    "substring": _op(2, "A", 1, 1, ["u8", "u8"]),
    "substring3": _op(2, "A", 3, 1),
    "balance": _op(2, "P", 1, 1),
    "app_opted_in": _op(2, "P", 2, 1),
    "app_local_get": _op(2, "P", 2, 1),
    "app_local_get_ex": _op(2, "P", 3, 2),
    "app_global_get": _op(2, "P", 1, 1),
    "app_global_get_ex": _op(2, "P", 2, 2),
    "app_local_put": _op(2, "P", 3, 0),
    "app_global_put": _op(2, "P", 2, 0),
    "app_local_del": _op(2, "P", 2, 0),
    "app_global_del": _op(2, "P", 1, 0),
    "asset_holding_get": _op(2, "P", 2, 2, ["aholdf"]),
    "asset_params_get": _op(2, "P", 1, 2, ["aparamf"]),
    # ---- v3
    "gtxns": _op(3, "A", 1, 1, ["txnf"]),
    "gtxnsa": _op(3, "A", 1, 1, ["txnaf", "u8"]),
    "assert": _op(3, "A", 1, 0),
    "dig": _op(3, "A", lambda i: i[0] + 1, lambda i: i[0] + 2, ["u8"], kind="shuffle"),
    "swap": _op(3, "A", 2, 2, kind="shuffle"),
    "select": _op(3, "A", 3, 1),
    "getbit": _op(3, "A", 2, 1),
    "setbit": _op(3, "A", 3, 1),
    "getbyte": _op(3, "A", 2, 1),
    "setbyte": _op(3, "A", 3, 1),
    "min_balance": _op(3, "P", 1, 1),
    "pushbytes": _op(3, "A", 0, 1, ["bytes"]),
    "pushint": _op(3, "A", 0, 1, ["u64"]),
    # ---- v4
    "gload": _op(4, "P", 0, 1, ["u8", "u8"]),
    "gloads": _op(4, "P", 1, 1, ["u8"]),
    "gaid": _op(4, "P", 0, 1, ["u8"]),
    "gaids": _op(4, "P", 1, 1),
    "callsub": _op(4, "A", 0, 0, ["label"], kind="call"),
    "retsub": _op(4, "A", 0, 0, kind="term"),
    "shl": _op(4, "A", 2, 1),
    "shr": _op(4, "A", 2, 1),
    "sqrt": _op(4, "A", 1, 1, cost=4),
    "bitlen": _op(4, "A", 1, 1),
    "exp": _op(4, "A", 2, 1),
    "expw": _op(4, "A", 2, 2, cost=10),
    "divmodw": _op(4, "A", 4, 4, cost=20),
    "b+": _op(4, "A", 2, 1, cost=10),
    "b-": _op(4, "A", 2, 1, cost=10),
    "b/": _op(4, "A", 2, 1, cost=20),
    "b*": _op(4, "A", 2, 1, cost=20),
    "b<": _op(4, "A", 2, 1),
    "b>": _op(4, "A", 2, 1),
    "b<=": _op(4, "A", 2, 1),
    "b>=": _op(4, "A", 2, 1),
    "b==": _op(4, "A", 2, 1),
    "b!=": _op(4, "A", 2, 1),
    "b%": _op(4, "A", 2, 1, cost=20),
    "b|": _op(4, "A", 2, 1, cost=6),
    "b&": _op(4, "A", 2, 1, cost=6),
    "b^": _op(4, "A", 2, 1, cost=6),
    "b~": _op(4, "A", 1, 1, cost=4),
    "bzero": _op(4, "A", 1, 1),
    # ---- v5
    "ecdsa_verify": _op(5, "A", 5, 1, ["ecdsa"], cost=_ecdsa_cost(1700, 2500)),
    "ecdsa_pk_decompress": _op(5, "A", 1, 2, ["ecdsa"], cost=_ecdsa_cost(650, 2400)),
    "ecdsa_pk_recover": _op(5, "A", 4, 2, ["ecdsa"], cost=2000),
    "loads": _op(5, "A", 1, 1),
    "stores": _op(5, "A", 2, 0),
    "cover": _op(5, "A", lambda i: i[0] + 1, lambda i: i[0] + 1, ["u8"], kind="shuffle"),
    "uncover": _op(5, "A", lambda i: i[0] + 1, lambda i: i[0] + 1, ["u8"], kind="shuffle"),
    "extract": _op(5, "A", 1, 1, ["u8", "u8"]),
    "extract3": _op(5, "A", 3, 1),
    "extract_uint16": _op(5, "A", 2, 1),
    "extract_uint32": _op(5, "A", 2, 1),
    "extract_uint64": _op(5, "A", 2, 1),
    "app_params_get": _op(5, "P", 1, 2, ["appparamf"]),
    "log": _op(5, "P", 1, 0),
    "itxn_begin": _op(5, "P", 0, 0),
    "itxn_field": _op(5, "P", 1, 0, ["txnf_any"]),
    "itxn_submit": _op(5, "P", 0, 0),
    "itxn": _op(5, "P", 0, 1, ["txnf"]),
    "itxna": _op(5, "P", 0, 1, ["txnaf", "u8"]),
    "txnas": _op(5, "A", 1, 1, ["txnaf"]),
    "gtxnas": _op(5, "A", 1, 1, ["u8", "txnaf"]),
    "gtxnsas": _op(5, "A", 2, 1, ["txnaf"]),
    "args": _op(5, "S", 1, 1),
    # ---- v6
    "bsqrt": _op(6, "A", 1, 1, cost=40),
    "divw": _op(6, "A", 3, 1),
    "itxn_next": _op(6, "P", 0, 0),
    "itxnas": _op(6, "P", 1, 1, ["txnaf"]),
    "gitxn": _op(6, "P", 0, 1, ["u8", "txnf"]),
    "gitxna": _op(6, "P", 0, 1, ["u8", "txnaf", "u8"]),
    "gitxnas": _op(6, "P", 1, 1, ["u8", "txnaf"]),
    "gloadss": _op(6, "P", 2, 1),
    "acct_params_get": _op(6, "P", 1, 2, ["acctparamf"]),
    # ---- v7
    # assembler pseudo-op: `replace s` is replace2 s, bare `replace` is replace3
    "replace": _op(7, "A", lambda i: 2 if i else 3, 1, ["u8opt"]),
    "replace2": _op(7, "A", 2, 1, ["u8"]),
    "replace3": _op(7, "A", 3, 1),
    "base64_decode": _op(7, "A", 1, 1, ["b64enc"], cost=None),
    "json_ref": _op(7, "A", 2, 1, ["jsont"], cost=None),
    "ed25519verify_bare": _op(7, "A", 3, 1, cost=1900),
    "sha3_256": _op(7, "A", 1, 1, cost=130),
    "vrf_verify": _op(7, "A", 3, 2, ["vrfstd"], cost=5700),
    "block": _op(7, "A", 1, 1, ["blockf"]),
    # ---- v8
    "box_create": _op(8, "P", 2, 1),
    "box_extract": _op(8, "P", 3, 1),
    "box_replace": _op(8, "P", 3, 0),
    "box_del": _op(8, "P", 1, 1),
    "box_len": _op(8, "P", 1, 2),
    "box_get": _op(8, "P", 1, 2),
    "box_put": _op(8, "P", 2, 0),
    "popn": _op(8, "A", lambda i: i[0], 0, ["u8"], kind="shuffle"),
    "dupn": _op(8, "A", 1, lambda i: i[0] + 1, ["u8"], kind="shuffle"),
    "bury": _op(8, "A", lambda i: i[0] + 1, lambda i: i[0], ["u8"], kind="shuffle"),
    "frame_dig": _op(8, "A", 0, 1, ["i8"]),
    "frame_bury": _op(8, "A", 1, 0, ["i8"]),
    "proto": _op(8, "A", 0, 0, ["u8", "u8"]),
    "switch": _op(8, "A", 1, 0, ["labels"], kind="branch"),
    "match": _op(8, "A", lambda i: len(i[0]) + 1, 0, ["labels"], kind="branch"),
    "pushints": _op(8, "A", 0, lambda i: len(i[0]), ["ints"]),
    "pushbytess": _op(8, "A", 0, lambda i: len(i[0]), ["bytess"]),
}

# version of pseudo ops: `int`/`byte`/`addr` assemble to intc/bytec (v1).
# name -> introduction version, from the AVM spec field tables
TXN_FIELDS = {
    # v1
    "Sender": 1, "Fee": 1, "FirstValid": 1, "FirstValidTime": 7, "LastValid": 1, "Note": 1,
    "Lease": 1, "Receiver": 1, "Amount": 1, "CloseRemainderTo": 1, "VotePK": 1, "SelectionPK": 1,
    "VoteFirst": 1, "VoteLast": 1, "VoteKeyDilution": 1, "Type": 1, "TypeEnum": 1, "XferAsset": 1,
    "AssetAmount": 1, "AssetSender": 1, "AssetReceiver": 1, "AssetCloseTo": 1, "GroupIndex": 1,
    "TxID": 1,
    # v2
    "ApplicationID": 2, "OnCompletion": 2, "NumAppArgs": 2, "NumAccounts": 2,
    "ApprovalProgram": 2, "ClearStateProgram": 2, "RekeyTo": 2, "ConfigAsset": 2,
    "ConfigAssetTotal": 2, "ConfigAssetDecimals": 2, "ConfigAssetDefaultFrozen": 2,
    "ConfigAssetUnitName": 2, "ConfigAssetName": 2, "ConfigAssetURL": 2,
    "ConfigAssetMetadataHash": 2, "ConfigAssetManager": 2, "ConfigAssetReserve": 2,
    "ConfigAssetFreeze": 2, "ConfigAssetClawback": 2, "FreezeAsset": 2, "FreezeAssetAccount": 2,
    "FreezeAssetFrozen": 2,
    # v3
    "NumAssets": 3, "NumApplications": 3, "GlobalNumUint": 3, "GlobalNumByteSlice": 3,
    "LocalNumUint": 3, "LocalNumByteSlice": 3,
    # v4
    "ExtraProgramPages": 4,
    # v5
    "Nonparticipation": 5, "NumLogs": 5, "CreatedAssetID": 5, "CreatedApplicationID": 5,
    # v6
    "LastLog": 6, "StateProofPK": 6,
    # v7
    "NumApprovalProgramPages": 7, "NumClearStateProgramPages": 7,
}
TXN_ARRAY_FIELDS = {
    "ApplicationArgs": 2, "Accounts": 2, "Assets": 3, "Applications": 3, "Logs": 5,
    "ApprovalProgramPages": 7, "ClearStateProgramPages": 7,
}
GLOBAL_FIELDS = {
    "MinTxnFee": 1, "MinBalance": 1, "MaxTxnLife": 1, "ZeroAddress": 1, "GroupSize": 1,
    "LogicSigVersion": 2, "Round": 2, "LatestTimestamp": 2, "CurrentApplicationID": 2,
    "CreatorAddress": 3,
    "CurrentApplicationAddress": 5, "GroupID": 5,
    "OpcodeBudget": 6, "CallerApplicationID": 6, "CallerApplicationAddress": 6,
}
# global fields only available in application mode
GLOBAL_FIELDS_APP_ONLY = {
    "Round", "LatestTimestamp", "CurrentApplicationID", "CreatorAddress",
    "CurrentApplicationAddress", "CallerApplicationID", "CallerApplicationAddress",
}
ASSET_HOLDING_FIELDS = {"AssetBalance": 2, "AssetFrozen": 2}
ASSET_PARAMS_FIELDS = {
    "AssetTotal": 2, "AssetDecimals": 2, "AssetDefaultFrozen": 2, "AssetUnitName": 2,
    "AssetName": 2, "AssetURL": 2, "AssetMetadataHash": 2, "AssetManager": 2, "AssetReserve": 2,
    "AssetFreeze": 2, "AssetClawback": 2, "AssetCreator": 5,
}
APP_PARAMS_FIELDS = {
    "AppApprovalProgram": 5, "AppClearStateProgram": 5, "AppGlobalNumUint": 5,
    "AppGlobalNumByteSlice": 5, "AppLocalNumUint": 5, "AppLocalNumByteSlice": 5,
    "AppExtraProgramPages": 5, "AppCreator": 5, "AppAddress": 5,
}
ACCT_PARAMS_FIELDS = {
    "AcctBalance": 6, "AcctMinBalance": 6, "AcctAuthAddr": 6,
    "AcctTotalNumUint": 8, "AcctTotalNumByteSlice": 8, "AcctTotalExtraAppPages": 8,
    "AcctTotalAppsCreated": 8, "AcctTotalAppsOptedIn": 8, "AcctTotalAssetsCreated": 8,
    "AcctTotalAssets": 8, "AcctTotalBoxes": 8, "AcctTotalBoxBytes": 8,
}
ECDSA_CURVES = {"Secp256k1": 5, "Secp256r1": 7}
BASE64_ENCODINGS = ["URLEncoding", "StdEncoding"]
JSON_TYPES = ["JSONString", "JSONUint64", "JSONObject"]
VRF_STANDARDS = ["VrfAlgorand"]
BLOCK_FIELDS = ["BlkSeed", "BlkTimestamp"]

TYPE_ENUM_NAMES = {"unknown": 0, "pay": 1, "keyreg": 2, "acfg": 3, "axfer": 4, "afrz": 5, "appl": 6}
ON_COMPLETION_NAMES = {
    "NoOp": 0, "OptIn": 1, "CloseOut": 2, "ClearState": 3, "UpdateApplication": 4,
    "DeleteApplication": 5,
}

FIELD_FAMILIES = {
    "txnf": TXN_FIELDS,
    "txnaf": TXN_ARRAY_FIELDS,
    "globalf": GLOBAL_FIELDS,
    "aholdf": ASSET_HOLDING_FIELDS,
    "aparamf": ASSET_PARAMS_FIELDS,
    "appparamf": APP_PARAMS_FIELDS,
    "acctparamf": ACCT_PARAMS_FIELDS,
}


def pops(name: str, imm) -> int:
    p = OPS[name].pops
    return p(imm) if callable(p) else p


def pushes(name: str, imm) -> int:
    p = OPS[name].pushes
    return p(imm) if callable(p) else p


def cost(name: str, version: int, imm):
    c = OPS[name].cost
    if c is None:
        return None
    return c(version, imm) if callable(c) else c
