#!/bin/sh
# usage: ./check.sh <PID> <tier>   (cwd = /verif)
cd "$(dirname "$0")" || exit 2
PYTHONDONTWRITEBYTECODE=1 PYTHONPATH="$(pwd)" exec /venv/bin/python -m vf.run "$1" --tier "${2:-quick}"
